"""Generators for the client properties C05-C17: scripts over the event alphabet."""
import mqtt as M
from gen import generator, case, CONNACK, hx

PUBACK_R = [0, 16, 128, 131, 135, 144, 145, 151, 153]
PUBCOMP_R = [0, 146]


class S:
    """script builder that tracks what identifiers the library will assign"""

    def __init__(self, connack_props=(), connect_opts="", run=True, via_auth=False):
        self.evs = []
        self.pid_ctr = 1
        self.sub_ctr = 1
        self.next_op = 0
        self.ops = {}          # op -> dict(kind,q,polled,pid,subid,state)
        self.tags = set()
        self.inflight = 0
        self.rmax = dict(connack_props).get(33, 65535)
        if via_auth:
            # enhanced authentication: CONNECT, AUTH challenge, AUTH response, then the CONNACK arrives in authorize()
            self.ev(("connect am=6d ad=01 " + connect_opts).strip())
            self.ev("deliver " + hx(M.auth(24, [(21, b"m"), (22, b"\x07")])))
            self.ev("auth r=24 am=6d ad=02")
            self.tags.add("via-auth")
        else:
            self.ev(("connect " + connect_opts).strip())
        self.ev("deliver " + hx(M.connack(ps=connack_props)))
        if run:
            self.ev("run")

    def ev(self, text):
        self.evs.append(text)
        return len(self.evs) - 1

    def script(self):
        return " ; ".join(self.evs)

    def alloc(self):
        if self.pid_ctr == 0:
            self.pid_ctr = 2
            return 1
        p = self.pid_ctr
        self.pid_ctr = (p + 1) % 65536
        return p

    def start(self, kind, args="", q=0, handle=0):
        i = self.next_op
        self.next_op += 1
        self.ops[i] = {"kind": kind, "q": q, "polled": False, "pid": None, "subid": None, "state": "new",
                       "buildable": True}
        self.ev(("start %d %d %s %s" % (i, handle, kind, args)).strip())
        self.tags.add("op:" + kind + (str(q) if kind == "pub" else ""))
        return i

    def pub(self, q=0, topic=b"t", payload=b"p", extra="", handle=0):
        a = "q=%d" % q
        if topic is not None:
            a += " t=" + hx(topic)
        if payload is not None:
            a += " pl=" + hx(payload)
        i = self.start("pub", (a + " " + extra).strip(), q, handle)
        if topic is None:
            self.ops[i]["buildable"] = False
        return i

    def sub(self, topic=b"f", flags="2000", handle=0, extra=""):
        return self.start("sub", ("f=%s:%s %s" % (hx(topic), flags, extra)).strip(), 0, handle)

    def unsub(self, topic=b"f", handle=0):
        return self.start("unsub", "f=%s" % hx(topic), 0, handle)

    def ping(self, handle=0):
        return self.start("ping", "", 0, handle)

    def disc(self, args="", handle=0):
        return self.start("disc", args, 0, handle)

    def poll(self, i, forced=False):
        o = self.ops[i]
        if not o["polled"]:
            o["polled"] = True
            k = o["kind"]
            if (k == "pub" and o["q"] > 0) or k in ("sub", "unsub"):
                o["pid"] = self.alloc()
            if k == "sub":
                o["subid"] = self.sub_ctr
                self.sub_ctr += 1
            o["state"] = "wait1" if o["buildable"] else "done"
            if k == "pub" and o["q"] > 0 and o["buildable"]:
                if self.inflight >= self.rmax:
                    o["state"] = "refused"
                else:
                    self.inflight += 1
        return self.ev(("fpoll %d" if forced else "poll %d") % i)

    def freed(self):
        self.inflight = max(0, self.inflight - 1)

    def deliver(self, b):
        return self.ev("deliver " + hx(b))


def walk(rng, n, f, tag):
    """random walk of n steps. f: feature dict."""
    R = f.get("rmax")
    cps = [(33, R)] if R else []
    if f.get("maxpkt"):
        cps.append((39, f["maxpkt"]))
    s = S(connack_props=cps)
    live_ops = []        # started, not finished/dropped
    streams = []         # (op, subid, state)
    hold = False
    inbound_pid = 100
    dead = False
    for _ in range(n):
        if dead:
            break
        acts = ["start"] * 3 + ["poll"] * 4 + ["ack"] * 4
        if f.get("drops"):
            acts += ["dropop"]
        if f.get("streams"):
            acts += ["inpub"] * 3 + ["pollstream"] * 2 + ["tostream"]
            if f.get("drops"):
                acts += ["dropstream"]
        if f.get("inbound"):
            acts += ["inpub"] * 2 + ["inrel"]
        if f.get("spurious"):
            acts += ["fpoll", "sweep", "fpollstream"]
        if f.get("unknown_acks"):
            acts += ["strayack"]
        if f.get("hold"):
            acts += ["hold"]
        a = rng.choice(acts)
        if a == "start":
            kinds = f.get("kinds", ["pub0", "pub1", "pub2", "sub", "unsub", "ping"])
            k = rng.choice(kinds)
            if k.startswith("pub"):
                size = rng.choice(f.get("sizes", [1]))
                i = s.pub(q=int(k[3]), payload=bytes([65 + (len(s.evs) % 26)]) * size)
            elif k == "sub":
                i = s.sub(topic=b"f%d" % s.next_op)
            elif k == "unsub":
                i = s.unsub()
            elif k == "ping":
                i = s.ping()
            else:
                i = s.disc()
            live_ops.append(i)
            if rng.random() < 0.7:
                s.poll(i)
        elif a in ("poll", "fpoll") and live_ops:
            i = rng.choice(live_ops)
            s.poll(i, forced=(a == "fpoll"))
            if not hold:
                if s.ops[i]["state"] == "rec":
                    s.ops[i]["state"] = "wait2"
                elif s.ops[i]["state"] == "acked":
                    s.ops[i]["state"] = "done"
                    live_ops.remove(i)
        elif a == "ack":
            # acknowledge some outstanding operation the way a conformant broker would
            cands = [i for i in live_ops if s.ops[i]["polled"] and s.ops[i]["state"] in ("wait1", "wait2")
                     and s.ops[i]["kind"] != "disc" and not (s.ops[i]["kind"] == "pub" and s.ops[i]["q"] == 0)]
            if hold:
                cands = []
            if cands:
                i = rng.choice(cands)
                o = s.ops[i]
                fail = rng.random() < f.get("fail", 0.0)
                ps = []
                if rng.random() < 0.2:
                    ps = [(31, b"why"), (38, (b"k", b"v"))]
                if o["kind"] == "ping":
                    s.deliver(M.pingresp())
                    o["state"] = "acked"
                elif o["kind"] == "sub":
                    s.deliver(M.suback(o["pid"], [rng.choice([0, 1, 2, 128])], ps))
                    o["state"] = "acked"
                    streams.append(i)
                elif o["kind"] == "unsub":
                    s.deliver(M.unsuback(o["pid"], [rng.choice([0, 17])], ps))
                    o["state"] = "acked"
                elif o["q"] == 1:
                    r = rng.choice(PUBACK_R[2:]) if fail else rng.choice(PUBACK_R[:2])
                    s.deliver(M.puback(o["pid"], r, ps))
                    o["state"] = "acked"
                    s.freed()
                elif o["state"] == "wait1":
                    r = rng.choice(PUBACK_R[2:]) if fail else rng.choice(PUBACK_R[:2])
                    s.deliver(M.pubrec(o["pid"], r, ps))
                    o["state"] = "acked" if r >= 128 else "rec"
                    if r >= 128:
                        s.freed()
                else:
                    r = 146 if fail else 0
                    s.deliver(M.pubcomp(o["pid"], r, ps))
                    o["state"] = "acked"
                    s.freed()
                s.tags.add("ack")
                if rng.random() < 0.6:
                    s.poll(i)
                    if o["state"] == "rec":
                        o["state"] = "wait2"
                    elif o["state"] == "acked":
                        o["state"] = "done"
                        live_ops.remove(i)
        elif a == "strayack" and not hold:
            pid = rng.choice([7, 9999, 65535])
            s.deliver(rng.choice([M.puback(pid), M.pubrec(pid), M.pubcomp(pid), M.suback(pid), M.unsuback(pid),
                                  M.pingresp()]))
            s.tags.add("strayack")
        elif a == "dropop" and live_ops:
            i = rng.choice(live_ops)
            s.ev("dropop %d" % i)
            live_ops.remove(i)
            s.ops[i]["state"] = "dropped"
            s.tags.add("dropop")
        elif a == "inpub" and not hold:
            q = rng.choice([0, 1, 2])
            subs = [s.ops[i]["subid"] for i in s.ops if s.ops[i]["subid"]]
            choice = rng.random()
            ps = []
            if subs and choice < 0.7:
                ps = [(11, rng.choice(subs))]
            elif choice < 0.85:
                ps = [(11, 9999)]
            inbound_pid += 1
            pid = rng.choice([inbound_pid, 100, 101]) if f.get("redeliver") else inbound_pid
            s.deliver(M.publish(b"top", b"" if rng.random() < 0.15 else b"m%d" % len(s.evs), q, pid if q else None,
                                dup=rng.choice([0, 0, 1]), ps=ps))
            s.tags.add("inpub%d" % q)
        elif a == "inrel" and not hold:
            s.deliver(M.pubrel(rng.choice([100, 101, inbound_pid]), *rng.choice([(0, (), "auto"), (146, (), "short3"), (0, (), "short3"),
                                                                                  (146, [(31, b"gone")], "long")])))
            s.tags.add("inrel")
        elif a == "tostream" and streams:
            i = rng.choice(streams)
            if s.ops[i]["state"] == "done":
                s.ev("tostream %d" % i)
                s.ops[i]["state"] = "stream"
        elif a in ("pollstream", "fpollstream"):
            st = [i for i in s.ops if s.ops[i]["state"] == "stream"]
            if st:
                s.ev("%s %d" % (a, rng.choice(st)))
        elif a == "dropstream":
            st = [i for i in s.ops if s.ops[i]["state"] == "stream"]
            if st:
                i = rng.choice(st)
                s.ev("dropstream %d" % i)
                s.ops[i]["state"] = "sdropped"
                s.tags.add("dropstream")
        elif a == "sweep":
            s.ev("sweep")
        elif a == "hold":
            # queue several handle messages before the context runs (no transport events meanwhile)
            if not hold:
                s.ev("hold")
                hold = True
            else:
                s.ev("release")
                hold = False
    if hold:
        s.ev("release")
    if f.get("dropctx_at_end"):
        s.ev("dropctx")
        for i in list(s.ops):
            if s.ops[i]["state"] not in ("dropped", "done", "stream", "sdropped"):
                s.poll(i)
            if s.ops[i]["state"] == "stream":
                for _ in range(4):
                    s.ev("pollstream %d" % i)
    else:
        # final polls so that every completion is observed
        for i in list(live_ops):
            s.poll(i)
    return case(tag, s.script(), tags=sorted(s.tags))


def n_cases(tier, q, t):
    return t if tier == "thorough" else q


# ---- C05 ------------------------------------------------------------------------------------------
@generator("C05", "Corpus of fixed scripts (ack permutations, ping FIFO), then random walks over "
           "{start, poll, conformant ack in any order, stray ack, hold/release} with all operation kinds.",
           ["futures oneshot/mpsc semantics as written in Model/Client.v", "eager scheduling (DESIGN 4.1)"])
def c05(tier, rng):
    out = []
    for codes in ([1, 135], [0, 1, 2], [128, 0, 151, 2]):
        st = S()
        a = st.start("sub", " ".join("f=%s:2000" % hx(b"f%d" % k) for k in range(len(codes))))
        b = st.sub(b"other")
        st.poll(a), st.poll(b)
        st.deliver(M.suback(2, [2], [(38, (b"k", b"longer value")), (31, b"why")])), st.deliver(M.suback(1, codes, [(38, (b"a longer name", b"v"))]))
        st.poll(a), st.poll(b)
        out.append(case("suback-codes-%d" % len(codes), st.script(), ["suback-codes"]))
    for ups in ([(38, (b"n", b"value"))], [(38, (b"name", b"v")), (31, b"reason")], [(31, b"r"), (38, (b"longer-name", b"")), (38, (b"", b"x"))]):
        st = S()
        a, b, c_, d = st.pub(q=1), st.unsub(b"u"), st.pub(q=2), st.ping()
        for i_ in (a, b, c_, d):
            st.poll(i_)
        st.deliver(M.puback(1, 135, ups)), st.deliver(M.unsuback(2, [17], ups)), st.deliver(M.pubrec(3, 0, ups, "long"))
        for i_ in (a, b, c_, d):
            st.poll(i_)
        st.deliver(M.pubcomp(3, 146, ups, "long")), st.deliver(M.pingresp())
        for i_ in (a, b, c_, d):
            st.poll(i_)
        out.append(case("ack-user-properties-%d" % len(ups), st.script(), ["ack-up"]))
    # identifiers of 256 and beyond (both identifier bytes in use) through complete exchanges of every kind
    for first in (254, 255, 256, 300, 65533):
        st = S()
        st.ev("spin %d 5000 pub1 1" % first)
        st.pid_ctr = first + 1
        ops5 = [st.pub(q=2, payload=b"A"), st.pub(q=1, payload=b"B"), st.sub(b"s"), st.unsub(b"u"), st.pub(q=2, payload=b"C")]
        for i in ops5:
            st.poll(i)
        pa, pb, ps_, pu, pc = [st.ops[i]["pid"] for i in ops5]
        st.deliver(M.pubrec(pc)), st.deliver(M.pubrec(pa)), st.poll(ops5[0]), st.poll(ops5[4])
        st.deliver(M.pubcomp(pc, 146, [(31, b"for C")], "long")), st.deliver(M.pubcomp(pa))
        st.deliver(M.unsuback(pu)), st.deliver(M.suback(ps_)), st.deliver(M.puback(pb, 16))
        for i in ops5:
            st.poll(i)
        out.append(case("two-byte-ids-%d" % first, st.script(), ["two-byte-ids"]))
    # pings answered in issue order also when an earlier ping's future was dropped and other requests came in between
    for between in ("pub0", "ping", "pub1"):
        st = S()
        p1 = st.ping()
        st.poll(p1), st.ev("dropop %d" % p1)
        x = st.pub(q=0) if between == "pub0" else (st.ping() if between == "ping" else st.pub(q=1))
        st.poll(x)
        p2 = st.ping()
        st.poll(p2)
        st.deliver(M.pingresp()), st.poll(p2), st.poll(x)
        st.deliver(M.pingresp()), st.poll(p2), st.poll(x)
        st.deliver(M.pingresp()), st.poll(p2), st.poll(x)
        out.append(case("dropped-ping-then-%s" % between, st.script(), ["dropped-ping"]))
    # every permutation of three acknowledgements for three outstanding operations
    import itertools
    for n, perm in enumerate(itertools.permutations(range(3))):
        s = S()
        ops = [s.pub(q=1), s.sub(), s.unsub()]
        for i in ops:
            s.poll(i)
        acks = [M.puback(1, 0, [(31, b"r0")]), M.suback(2, [1], [(38, (b"a", b"b"))]), M.unsuback(3, [17])]
        for k in perm:
            s.deliver(acks[k])
            for i in ops:
                s.poll(i)
        out.append(case("perm%d" % n, s.script(), ["perm"]))
    # pings complete one per PINGRESP in issue order
    s = S()
    ps = [s.ping() for _ in range(3)]
    for i in ps:
        s.poll(i)
    for _ in range(3):
        s.deliver(M.pingresp())
        for i in reversed(ps):
            s.poll(i)
    out.append(case("pingfifo", s.script(), ["ping"]))
    # same packet identifier, different acknowledgement types
    s = S()
    a, b = s.pub(q=1), s.pub(q=2)
    s.poll(a), s.poll(b)
    s.deliver(M.pubrec(1)), s.poll(a), s.poll(b)       # PUBREC for a QoS 1 publish's id: not its ack
    s.deliver(M.puback(2)), s.poll(a), s.poll(b)
    s.deliver(M.puback(1)), s.poll(a)
    s.deliver(M.pubrec(2)), s.poll(b), s.deliver(M.pubcomp(2)), s.poll(b)
    out.append(case("crosstype", s.script(), ["crosstype"]))
    for k in range(n_cases(tier, 150, 3000)):
        out.append(walk(rng, rng.choice([20, 40, 80] if tier == "quick" else [40, 120, 400]),
                        {"unknown_acks": True, "hold": k % 3 == 0, "fail": 0.2}, "walk%d" % k))
    acks = {"puback": M.puback, "pubrec": M.pubrec, "pubcomp": M.pubcomp, "suback": lambda pid: M.suback(pid, [0]),
            "unsuback": lambda pid: M.unsuback(pid, [0])}
    for kind, right in (("pub1", "puback"), ("pub2", "pubrec"), ("sub", "suback"), ("unsub", "unsuback"), ("pub2b", "pubcomp")):
        for wrong in acks:
            if wrong == right:
                continue
            s = S()
            other = s.ping()
            s.poll(other)
            i = {"pub1": lambda: s.pub(q=1), "pub2": lambda: s.pub(q=2), "pub2b": lambda: s.pub(q=2), "sub": s.sub, "unsub": s.unsub}[kind]()
            s.poll(i)
            pid = s.ops[i]["pid"]
            if kind == "pub2b":
                s.deliver(M.pubrec(pid)), s.poll(i)
            s.deliver(acks[wrong](pid)), s.poll(i), s.poll(other)
            s.deliver(acks[right](pid)), s.poll(i)
            if kind == "pub2":
                s.poll(i), s.deliver(M.pubcomp(pid)), s.poll(i)
            s.deliver(M.pingresp()), s.poll(other)
            out.append(case("crosstype-%s-%s" % (kind, wrong), s.script(), ["crosstype"]))
    return out + r6("C05") + r7("C05") + r8("C05") + r9("C05")


# ---- C06 ------------------------------------------------------------------------------------------
@generator("C06", "Every QoS x every legal PUBACK/PUBREC/PUBCOMP reason code with and without delayed polls, "
           "then random walks restricted to publishes with interleaved other operations.")
def c06(tier, rng):
    out = []
    # acknowledgements arriving glued, the read ending one byte into the second one
    for q in (1, 2):
        st = S()
        a_, b_ = st.pub(q=q, payload=b"A"), st.pub(q=q, payload=b"B")
        st.poll(a_), st.poll(b_)
        first = M.puback(1) + M.puback(2) if q == 1 else M.pubrec(1) + M.pubrec(2)
        for cut in (5, 4 + 2):
            pass
        st.deliver(first[:5]), st.deliver(first[5:]), st.poll(a_), st.poll(b_)
        if q == 2:
            second = M.pubcomp(2) + M.pubcomp(1)
            st.deliver(second[:5]), st.deliver(second[5:]), st.poll(a_), st.poll(b_)
        out.append(case("glued-acks-q%d" % q, st.script(), ["glued"]))
    for q in (1, 2):
        st = S()
        a_ = st.pub(q=q, payload=b"A")
        st.poll(a_)
        st.ev("run")
        if q == 2:
            st.deliver(M.pubrec(1)), st.poll(a_), st.ev("run")
            st.deliver(M.pubcomp(1))
        else:
            st.deliver(M.puback(1))
        st.poll(a_), st.ev("run")
        b_ = st.pub(q=1, payload=b"B")
        st.poll(b_), st.deliver(M.puback(2)), st.poll(b_)
        out.append(case("run-again-q%d" % q, st.script(), ["run-again"]))
    for q in (1, 2):
        for n_ in (119, 120, 200):
            st = S()
            i1 = st.pub(q=q, topic=b"t/x", payload=b"payload", extra="cd=%s" % hx(b"c" * n_))
            st.poll(i1), st.poll(i1)
            if q == 1:
                st.deliver(M.puback(1)), st.poll(i1)
            else:
                st.deliver(M.pubrec(1)), st.poll(i1), st.deliver(M.pubcomp(1)), st.poll(i1)
            nx = st.pub(q=1, payload=b"next")
            st.poll(nx), st.deliver(M.puback(st.ops[nx]["pid"])), st.poll(nx)
            out.append(case("big-props-q%d-%d" % (q, n_), st.script(), ["big-props"]))
        for order in ("t rt", "rt t"):
            st = S()
            args = {"t": "t=%s" % hx(b"services/set"), "rt": "rt=%s" % hx(b"clients/replies")}
            i1 = st.start("pub", "q=%d %s pl=%s" % (q, " ".join(args[k] for k in order.split()), hx(b"p")), q)
            st.poll(i1), st.poll(i1)
            st.deliver(M.puback(1) if q == 1 else M.pubrec(1)), st.poll(i1)
            out.append(case("option-order-q%d-%s" % (q, order.replace(" ", "-")), st.script(), ["option-order"]))
    # topics and strings outside ASCII (length prefixes count bytes, not characters), through the complete handshakes
    for topic in ("m\u00e9t\u00e9o/temp\u00e9rature", "\u6e29\u5ea6/\u5ba4\u5185", "a/\U0001f321/b"):
        tb = topic.encode("utf-8")
        for q in (0, 1, 2):
            st = S()
            i1 = st.pub(q=q, topic=tb, payload=b"21.5", extra="rt=%s ct=%s" % (hx(tb + b"/r"), hx("text/\u00e9".encode("utf-8"))))
            st.poll(i1), st.poll(i1)
            if q == 1:
                st.deliver(M.puback(1)), st.poll(i1)
            if q == 2:
                st.deliver(M.pubrec(1)), st.poll(i1), st.deliver(M.pubcomp(1)), st.poll(i1)
            out.append(case("utf8-topic-%d-q%d" % (len(tb), q), st.script(), ["utf8"]))
    for r in PUBACK_R:
        for delay in (0, 1):
            s = S()
            i = s.pub(q=1, extra="ret=1")
            j = s.ping()
            s.poll(i), s.poll(j)
            s.deliver(M.puback(1, r, [(31, b"rs")] if r else []))
            if delay:
                s.deliver(M.pingresp()), s.poll(j)
            s.poll(i)
            out.append(case("q1-r%d-d%d" % (r, delay), s.script(), ["q1"]))
            for r2 in PUBCOMP_R:
                s = S()
                i = s.pub(q=2, topic=b"x/y", payload=b"hello")
                s.poll(i)
                s.deliver(M.pubrec(1, r))
                if delay:
                    k = s.pub(q=0)
                    s.poll(k), s.poll(k)
                s.poll(i)
                s.deliver(M.pubcomp(1, r2))
                s.poll(i)
                s.poll(i) if r >= 128 else None
                out.append(case("q2-r%d-c%d-d%d" % (r, r2, delay), s.script(), ["q2"]))
    s = S()
    i = s.pub(q=0, payload=b"zz")
    s.poll(i), s.poll(i)
    out.append(case("q0", s.script(), ["q0"]))
    for k in range(n_cases(tier, 100, 2000)):
        out.append(walk(rng, rng.choice([20, 50]) if tier == "quick" else rng.choice([50, 200]),
                        {"kinds": ["pub0", "pub1", "pub2", "pub2", "ping"], "fail": 0.3, "rmax": rng.choice([None, 2, 5])},
                        "walk%d" % k))
    # a congested socket: the transport accepts only part of a packet, stays Pending, and later drains (the model has no
    # such writer: implementation-only cases, judged by the oracle)
    for q in (0, 1, 2):
        for accept in (0, 1, 3, 8):
            s = S()
            s.ev("wblock %d" % accept)
            a = s.pub(q=q, payload=b"blocked")
            s.poll(a), s.poll(a)
            b = s.pub(q=0, payload=b"second")
            s.poll(b), s.poll(b)
            s.ev("wunblock")
            s.poll(a), s.poll(b)
            if q == 1:
                s.deliver(M.puback(1)), s.poll(a)
            if q == 2:
                s.deliver(M.pubrec(1)), s.poll(a), s.deliver(M.pubcomp(1)), s.poll(a)
            c6 = case("blocked-q%d-%d" % (q, accept), s.script(), ["blocked-writer"])
            c6["model"] = False
            out.append(c6)
    s = S()
    s.ev("wblock 2")
    d = s.disc("r=4")
    s.poll(d), s.poll(d), s.ev("wunblock"), s.poll(d)
    c6 = case("blocked-disc", s.script(), ["blocked-writer"])
    c6["model"] = False
    out.append(c6)
    return out + r6("C06") + r7("C06") + r8("C06") + r9("C06")


# ---- C07 ------------------------------------------------------------------------------------------
K1_SCRIPT = None


def k1_case():
    s = S()
    a, b = s.sub(b"a"), s.sub(b"b")
    s.poll(a), s.poll(b)
    s.deliver(M.suback(1)), s.deliver(M.suback(2))
    s.poll(a), s.poll(b)
    s.ev("tostream %d" % a), s.ev("tostream %d" % b)
    s.deliver(M.publish(b"a", b"AA", ps=[(11, 1), (11, 2)]))
    s.ev("pollstream %d" % a), s.ev("pollstream %d" % b)
    return case("K1-two-subids", s.script(), ["K1"], multi_subid=True)


@generator("C07", "Subscribe/deliver/poll scenarios: messages before SUBACK and before stream(), unknown / absent "
           "identifiers, dropped and lagging streams, unsubscribe; then random walks with streams.")
def c07(tier, rng):
    out = [k1_case()]
    for r, form in ((146, "short3"), (146, "long"), (0, "auto")):
        st = S()
        a_ = st.sub(b"a")
        st.poll(a_), st.deliver(M.suback(1)), st.poll(a_), st.ev("tostream %d" % a_)
        st.deliver(M.publish(b"a", b"first", 2, 7, ps=[(11, 1)])), st.deliver(M.pubrel(7, r, (), form))
        st.deliver(M.publish(b"a", b"second", 2, 7, ps=[(11, 1)])), st.deliver(M.pubrel(7))
        st.deliver(M.publish(b"a", b"third", 2, 7, dup=1, ps=[(11, 1)]))
        for _ in range(4):
            st.ev("pollstream %d" % a_)
        out.append(case("released-with-reason-%d-%s" % (r, form), st.script(), ["pubrel-reason"]))
    for dropped in (0, 1, 2):
        st = S()
        subs_ = [st.sub(b"s%d" % k) for k in range(4)]
        for i_ in subs_:
            st.poll(i_)
        for k in range(4):
            st.deliver(M.suback(k + 1))
        for i_ in subs_:
            st.poll(i_), st.ev("tostream %d" % i_)
        st.ev("dropstream %d" % subs_[dropped])
        st.deliver(M.publish(b"x", b"to-dropped", 0, None, ps=[(11, dropped + 1)]))
        for rnd in range(2):
            for k in (2, 3, 0, 1):
                st.deliver(M.publish(b"x", b"r%d-s%d" % (rnd, k), 1, 20 + 4 * rnd + k, ps=[(11, k + 1)]))
        for i_ in subs_:
            if i_ != subs_[dropped]:
                for _ in range(3):
                    st.ev("pollstream %d" % i_)
        out.append(case("prune-%d" % dropped, st.script(), ["prune"]))
    if True:
        N_ = 66000 if tier == "quick" else 140000
        st = S()
        a_ = st.sub(b"a")
        st.poll(a_), st.deliver(M.suback(1)), st.poll(a_), st.ev("tostream %d" % a_)
        st.ev("flood %d %s" % (N_, hx(M.publish(b"a", b"m", 0, None, ps=[(11, 1)]))))
        st.ev("drain %d %d" % (a_, N_))
        st.deliver(M.publish(b"a", b"fresh", 0, None, ps=[(11, 1)])), st.ev("pollstream %d" % a_), st.ev("pollstream %d" % a_)
        c_ = case("very-late-consumer", st.script(), ["backlog"], release=False)
        c_["model"] = False
        out.append(c_)
    for cut in (1, 2, 3):
        st = S()
        a_ = st.sub(b"a")
        st.poll(a_), st.deliver(M.suback(1)), st.poll(a_), st.ev("tostream %d" % a_)
        m1 = M.publish(b"a", b"first", 0, None, ps=[(11, 1)])
        m2 = M.publish(b"a", b"long one", 1, 9, ps=[(11, 1), (38, (b"k", b"v" * 300))])
        m3 = M.publish(b"a", b"third", 0, None, ps=[(11, 1)])
        stream = m1 + m2 + m3
        st.deliver(stream[:len(m1) + cut]), st.deliver(stream[len(m1) + cut:])
        for _ in range(4):
            st.ev("pollstream %d" % a_)
        out.append(case("length-cut-%d" % cut, st.script(), ["cut"]))
    # message between SUBSCRIBE and SUBACK, and before stream()
    s = S()
    a = s.sub(b"a")
    s.poll(a)
    s.deliver(M.publish(b"a", b"early", ps=[(11, 1), (38, (b"k", b"v")), (3, b"text/plain"), (2, 60)]))
    s.deliver(M.suback(1, [2]))
    s.deliver(M.publish(b"a", b"before-stream", qos=1, pid=9, retain=1, ps=[(11, 1), (9, b"\x01\x02"), (8, b"re")]))
    s.poll(a)
    s.ev("tostream %d" % a)
    s.deliver(M.publish(b"a", b"after", qos=2, pid=10, dup=1, ps=[(1, 1), (35, 4), (11, 1)]))
    for _ in range(4):
        s.ev("pollstream %d" % a)
    out.append(case("early", s.script(), ["early"]))
    # two streams, one dropped, one lagging; unsubscribe does not end the stream
    s = S()
    a, b = s.sub(b"a"), s.sub(b"b")
    s.poll(a), s.poll(b)
    s.deliver(M.suback(1)), s.deliver(M.suback(2)), s.poll(a), s.poll(b)
    s.ev("tostream %d" % a), s.ev("tostream %d" % b)
    s.deliver(M.publish(b"a", b"1", ps=[(11, 1)])), s.deliver(M.publish(b"b", b"2", ps=[(11, 2)]))
    s.ev("dropstream %d" % a)
    s.deliver(M.publish(b"a", b"3", ps=[(11, 1)])), s.deliver(M.publish(b"b", b"4", ps=[(11, 2)]))
    u = s.unsub(b"b")
    s.poll(u), s.deliver(M.unsuback(3)), s.poll(u)
    s.deliver(M.publish(b"b", b"5", ps=[(11, 2)])), s.deliver(M.publish(b"x", b"6", ps=[(11, 77)]))
    s.deliver(M.publish(b"x", b"7"))
    for _ in range(5):
        s.ev("pollstream %d" % b)
    out.append(case("isolation", s.script(), ["isolation"]))
    s = S()
    a = s.sub(b"a")
    s.poll(a), s.deliver(M.suback(1)), s.poll(a), s.ev("tostream %d" % a)
    for q in (0, 1, 2):
        s.deliver(M.publish(b"a", b"", q, 30 + q if q else None, ps=[(11, 1)]))
        s.deliver(M.publish(b"a", b"x%d" % q, q, 40 + q if q else None, retain=1, ps=[(11, 1), (1, 1)]))
    for _ in range(7):
        s.ev("pollstream %d" % a)
    out.append(case("empty-payload", s.script(), ["empty-payload"]))
    # a consumer that is late: well over a thousand messages wait in the stream (before SUBACK, before stream(), after)
    N = 1300 if tier == "quick" else 3000
    s = S()
    a, b = s.sub(b"a"), s.sub(b"b")
    s.poll(a), s.poll(b)
    for k in range(N):
        if k == 11:
            s.deliver(M.suback(1)), s.deliver(M.suback(2)), s.poll(a), s.poll(b)
        if k == 40:
            s.ev("tostream %d" % b)
        s.deliver(M.publish(b"a", b"n%d" % k, 0, None, ps=[(11, 1)]))
        if k % 100 == 0:
            s.deliver(M.publish(b"b", b"b%d" % k, 0, None, ps=[(11, 2)]))
            if k >= 100:
                s.ev("pollstream %d" % b)
    s.ev("tostream %d" % a)
    for k in range(N + 1):
        s.ev("pollstream %d" % a)
    s.deliver(M.publish(b"a", b"fresh", 1, 9, ps=[(11, 1)])), s.ev("pollstream %d" % a), s.ev("pollstream %d" % a)
    out.append(case("late-consumer", s.script(), ["backlog"]))
    # the acknowledgement of an inbound QoS>0 message cannot be written (write fault exactly there): the message has
    # reached its stream all the same, and so have the ones before it
    for q in (1, 2):
        for budget in (0, 1, 3):
            s = S()
            a = s.sub(b"a")
            s.poll(a), s.deliver(M.suback(1)), s.poll(a), s.ev("tostream %d" % a)
            s.deliver(M.publish(b"a", b"first", 0, None, ps=[(11, 1)]))
            s.ev("werr %d" % budget)
            s.deliver(M.publish(b"a", b"second", q, 9, ps=[(11, 1)]))
            for _ in range(4):
                s.ev("pollstream %d" % a)
            out.append(case("ack-write-fails-q%d-%d" % (q, budget), s.script(), ["ackfault"]))
    for k in range(n_cases(tier, 120, 2500)):
        out.append(walk(rng, rng.choice([30, 60]) if tier == "quick" else rng.choice([60, 250]),
                        {"kinds": ["sub", "sub", "unsub", "pub1", "ping"], "streams": True, "drops": k % 2 == 0},
                        "walk%d" % k))
    return out + r6("C07") + r7("C07") + r8("C07") + r9("C07")


# ---- C08 ------------------------------------------------------------------------------------------
@generator("C08", "All sequences over {PUBLISH q0/q1/q2 x dup x subid registered/dropped/unknown/absent, PUBREL} "
           "up to length 3 on a session with one live and one dropped stream, then random walks.")
def c08(tier, rng):
    import itertools
    out = []
    for cut in (1, 2):
        st = S()
        stream = M.publish(b"t", b"x", 1, 9) + M.publish(b"t", b"y" * 200, 2, 10) + M.pubrel(10) + M.publish(b"t", b"z", 1, 11)
        k1 = len(M.publish(b"t", b"x", 1, 9)) + cut
        st.deliver(stream[:k1]), st.deliver(stream[k1:])
        out.append(case("glued-inbound-cut%d" % cut, st.script(), ["glued"]))
    for rm in (1, 2):
        st = S(connack_props=[(33, rm)])
        for i_ in (1, 2, 3, 4):
            st.deliver(M.publish(b"t", b"m%d" % i_, 2, i_))
        for i_ in (2, 1, 4, 3):
            st.deliver(M.pubrel(i_))
        st.deliver(M.publish(b"t", b"q1", 1, 9))
        out.append(case("inbound-qos2-beyond-R%d" % rm, st.script(), ["rm-inbound"]))
    for q in (1, 2):
        st = S(connect_opts="tam=10")
        st.deliver(M.publish(b"t", b"x", q, 9, ps=[(2, 0)]))
        st.deliver(M.publish(b"named/topic", b"first", q, 10, ps=[(35, 5)])), st.deliver(M.publish(b"", b"second", q, 11, ps=[(35, 5)]))
        st.deliver(M.publish(b"t", b"y", q, 12, ps=[(2, 4294967295), (1, 1), (3, b"text/plain"), (8, b"r/t"), (9, b"cd")]))
        if q == 2:
            for i_ in (9, 10, 11, 12):
                st.deliver(M.pubrel(i_))
        out.append(case("boundary-props-q%d" % q, st.script(), ["boundary-props"]))
    alpha = []
    for q in (0, 1, 2):
        for sid in (None, 1, 2, 77):
            alpha.append(("p", q, sid))
    alpha.append(("r",))
    depth = 2 if tier == "quick" else 3
    n = 0
    for L in range(1, depth + 1):
        for seq in itertools.product(alpha, repeat=L):
            if tier == "quick" and L == 2 and rng.random() < 0.5:
                continue
            if L == 3 and rng.random() < 0.8:
                continue
            s = S()
            a, b = s.sub(b"a"), s.sub(b"b")
            s.poll(a), s.poll(b)
            s.deliver(M.suback(1)), s.deliver(M.suback(2)), s.poll(a), s.poll(b)
            s.ev("tostream %d" % a), s.ev("tostream %d" % b), s.ev("dropstream %d" % b)
            pid = 20
            for e in seq:
                if e[0] == "p":
                    pid += 1
                    s.deliver(M.publish(b"t", b"x", e[1], pid if e[1] else None, dup=pid % 2,
                                        ps=[(11, e[2])] if e[2] else []))
                else:
                    s.deliver(M.pubrel(pid, *[(0, (), "auto"), (146, (), "short3"), (146, [(31, b"lost")], "long")][n % 3]))
            out.append(case("seq%d" % n, s.script(), ["seq%d" % L]))
            n += 1
    for pid in (7, 8):
        for r, ps, form in ((0, (), "auto"), (0, (), "short3"), (146, (), "short3"), (146, [(31, b"lost")], "long"), (0, [(38, (b"k", b"v"))], "long")):
            s = S()
            if pid == 7:
                s.deliver(M.publish(b"t", b"", 2, 7))
            s.deliver(M.pubrel(pid, r, ps, form))
            s.deliver(M.publish(b"t", b"", 1, 9, dup=1)), s.deliver(M.publish(b"t", b"q0"))
            out.append(case("pubrel-%d-%d-%s" % (pid, r, form), s.script(), ["pubrel-forms"]))
    # a PUBLISH matching several subscriptions carries several Subscription Identifiers: acknowledged like any other
    for q in (0, 1, 2):
        s = S()
        a, b = s.sub(b"a/#"), s.sub(b"a/b")
        s.poll(a), s.poll(b), s.deliver(M.suback(1)), s.deliver(M.suback(2)), s.poll(a), s.poll(b)
        s.deliver(M.publish(b"a/b", b"both", q, 31 if q else None, ps=[(11, 1), (11, 2)]))
        s.deliver(M.publish(b"a/b", b"three", q, 32 if q else None, ps=[(11, 2), (38, (b"k", b"v")), (11, 1), (11, 9)]))
        if q == 2:
            s.deliver(M.pubrel(31)), s.deliver(M.pubrel(32))
        s.deliver(M.publish(b"a/c", b"one", 1, 33, ps=[(11, 1)]))
        out.append(case("several-subids-q%d" % q, s.script(), ["several-subids"]))
    # an acknowledgement that could not be written (connection 1 breaks exactly there) leaves nothing behind: on the next
    # connection of the same Context every inbound packet is answered with exactly its own acknowledgement
    for q, budget in ((1, 0), (2, 0), (1, 2), (2, 3)):
        s = S()
        s.ev("werr %d" % budget)
        s.deliver(M.publish(b"t", b"x", q, 0x1234))
        s.ev("reconnect"), s.ev("connect"), s.deliver(M.connack()), s.ev("run")
        s.deliver(M.publish(b"t", b"y", 1, 9)), s.deliver(M.publish(b"t", b"z", 2, 10)), s.deliver(M.pubrel(10))
        out.append(case("ack-fails-then-reconnect-q%d-%d" % (q, budget), s.script(), ["reconnect", "ackfault"]))
    for k in range(n_cases(tier, 60, 1500)):
        out.append(walk(rng, 40 if tier == "quick" else 150,
                        {"kinds": ["sub", "pub1", "ping"], "streams": True, "inbound": True, "drops": True,
                         "redeliver": True}, "walk%d" % k))
    return out + r6("C08") + r7("C08") + r8("C08") + r9("C08")


# ---- C09 ------------------------------------------------------------------------------------------
@generator("C09", "All sequences over {PUBLISH(q2,id in {5,6},dup 0/1), PUBREL(id)} up to length 4 (quick) / 5 "
           "(thorough, sampled) towards a live stream, interleaved with QoS 1 traffic; then random walks.")
def c09(tier, rng):
    import itertools
    out = []
    for budget in (0, 1, 3):
        st = S(connect_opts="sei=1000")
        a = st.sub(b"a")
        st.poll(a), st.deliver(M.suback(1)), st.poll(a), st.ev("tostream %d" % a)
        st.deliver(M.publish(b"a", b"m5", 2, 5, ps=[(11, 1)]))
        st.ev("werr %d" % budget)
        st.deliver(M.pubrel(5))                                           # its PUBCOMP cannot be written
        st.ev("markdisc 5"), st.ev("reconnect"), st.ev("connect sei=1000"), st.deliver(M.connack(1)), st.ev("run")
        st.deliver(M.publish(b"a", b"n5", 2, 5, ps=[(11, 1)])), st.deliver(M.pubrel(5))
        for _ in range(3):
            st.ev("pollstream %d" % a)
        out.append(case("pubcomp-fails-then-reuse-%d" % budget, st.script(), ["reconnect", "ackfault"]))
    for budget in (0, 2):
        st = S(connect_opts="sei=1000")
        a = st.sub(b"a")
        st.poll(a), st.deliver(M.suback(1)), st.poll(a), st.ev("tostream %d" % a)
        st.deliver(M.publish(b"a", b"m1", 2, 5, ps=[(11, 1)]))
        st.ev("werr %d" % budget)
        st.deliver(M.publish(b"a", b"m2", 2, 6, ps=[(11, 1)]))          # its PUBREC cannot be written
        st.ev("markdisc 5"), st.ev("reconnect"), st.ev("connect sei=1000"), st.deliver(M.connack(1)), st.ev("run")
        st.deliver(M.publish(b"a", b"m2", 2, 6, dup=1, ps=[(11, 1)])), st.deliver(M.pubrel(5)), st.deliver(M.pubrel(6))
        for _ in range(4):
            st.ev("pollstream %d" % a)
        out.append(case("pubrec-fails-then-resume-%d" % budget, st.script(), ["reconnect", "ackfault"]))
    alpha = [("p", 5, 0), ("p", 5, 1), ("p", 6, 0), ("r", 5), ("r", 6), ("q1", 5)]
    depth = 4 if tier == "quick" else 5
    n = 0
    for L in range(1, depth + 1):
        for seq in itertools.product(alpha, repeat=L):
            if L == 4 and rng.random() < (0.8 if tier == "quick" else 0.0):
                continue
            if L == 5 and rng.random() < 0.9:
                continue
            s = S()
            a = s.sub(b"a")
            s.poll(a), s.deliver(M.suback(1)), s.poll(a), s.ev("tostream %d" % a)
            for k, e in enumerate(seq):
                if e[0] == "p":
                    s.deliver(M.publish(b"t", b"m%d" % k, 2, e[1], dup=e[2], ps=[(11, 1)]))
                elif e[0] == "r":
                    s.deliver(M.pubrel(e[1]))
                else:
                    s.deliver(M.publish(b"t", b"one%d" % k, 1, e[1], ps=[(11, 1)]))
            for _ in range(L + 1):
                s.ev("pollstream %d" % a)
            out.append(case("seq%d" % n, s.script(), ["seq%d" % L]))
            n += 1
    for r, ps, form in ((146, (), "short3"), (146, [(31, b"lost")], "long"), (0, (), "short3")):
        s = S()
        a = s.sub(b"a")
        s.poll(a), s.deliver(M.suback(1)), s.poll(a), s.ev("tostream %d" % a)
        s.deliver(M.publish(b"t", b"first", 2, 5, ps=[(11, 1)])), s.deliver(M.publish(b"t", b"first", 2, 5, dup=1, ps=[(11, 1)]))
        s.deliver(M.pubrel(5, r, ps, form))
        s.deliver(M.publish(b"t", b"second", 2, 5, ps=[(11, 1)])), s.deliver(M.publish(b"t", b"second", 2, 5, dup=1, ps=[(11, 1)]))
        for _ in range(4):
            s.ev("pollstream %d" % a)
        out.append(case("release-%d-%s" % (r, form), s.script(), ["pubrel-forms"]))
    for fail in (128, 151, 0):
        # both directions use identifier 2 at the same time (the two sides number independently)
        s = S()
        a = s.sub(b"a")
        s.poll(a), s.deliver(M.suback(1)), s.poll(a), s.ev("tostream %d" % a)
        s.deliver(M.publish(b"t", b"in-first", 2, 2, ps=[(11, 1)]))
        o = s.pub(q=2, payload=b"out")
        s.poll(o)                                             # outbound identifier 2
        s.deliver(M.pubrec(2, fail)), s.poll(o)
        s.deliver(M.publish(b"t", b"in-first", 2, 2, dup=1, ps=[(11, 1)]))
        if not fail:
            s.deliver(M.pubcomp(2)), s.poll(o)
        s.deliver(M.pubrel(2)), s.deliver(M.publish(b"t", b"in-second", 2, 2, ps=[(11, 1)]))
        for _ in range(4):
            s.ev("pollstream %d" % a)
        out.append(case("both-directions-%d" % fail, s.script(), ["both-directions"]))
    for k in range(n_cases(tier, 40, 1000)):
        out.append(walk(rng, 50 if tier == "quick" else 200,
                        {"kinds": ["sub", "ping"], "streams": True, "inbound": True, "redeliver": True},
                        "walk%d" % k))
    # several exchanges unreleased at once, released out of order, then re-deliveries of the ones still unreleased
    for order in ((1,), (2,), (1, 3), (3, 1), (2, 1)):
        st = S()
        a = st.sub(b"a")
        st.poll(a), st.deliver(M.suback(1)), st.poll(a), st.ev("tostream %d" % a)
        ids = [1, 2, 3, 4]
        for i in ids:
            st.deliver(M.publish(b"a", b"m%d" % i, 2, i, ps=[(11, 1)]))
        for r in order:
            st.deliver(M.pubrel(r))
        for i in ids:
            st.deliver(M.publish(b"a", b"m%d" % i, 2, i, dup=1, ps=[(11, 1)]))     # new for the released ones, re-delivery otherwise
        for _ in range(len(ids) * 2 + 1):
            st.ev("pollstream %d" % a)
        out.append(case("outoforder-%s" % "".join(map(str, order)), st.script(), ["outoforder"]))
    # the server's Receive Maximum (a limit on what the CLIENT may send) says nothing about inbound exchanges
    for rm in (1, 2):
        st = S(connack_props=[(33, rm)])
        a = st.sub(b"a")
        st.poll(a), st.deliver(M.suback(1)), st.poll(a), st.ev("tostream %d" % a)
        for i in (11, 12, 13, 14):
            st.deliver(M.publish(b"a", b"m%d" % i, 2, i, ps=[(11, 1)]))
        for i in (11, 12, 13, 14):
            st.deliver(M.publish(b"a", b"m%d" % i, 2, i, dup=1, ps=[(11, 1)]))
        for _ in range(9):
            st.ev("pollstream %d" % a)
        out.append(case("inbound-beyond-R%d" % rm, st.script(), ["rm-inbound"]))
    return out + r6("C09") + r7("C09") + r8("C09") + r9("C09")


# ---- C10 ------------------------------------------------------------------------------------------
@generator("C10", "R in {1,2,3,absent(65535)} x structured histories (fill to R, refusal, each completion kind "
           "frees a slot, QoS 0 and other operations unlimited), then random walks with failing reasons.")
def c10(tier, rng):
    out = []
    for R in (1, 2, 3):
        s = S(connack_props=[(33, R)])
        first = [s.pub(q=1 + k % 2, payload=b"a%d" % k) for k in range(R)]
        for i_ in first:
            s.poll(i_)
        s.ev("run")                                   # the application dropped the run() future and called run() again
        more = [s.pub(q=1, payload=b"b%d" % k) for k in range(2)]
        for i_ in more:
            s.poll(i_)
        for i_ in more:
            s.poll(i_)
        s.deliver(M.puback(s.ops[first[0]]["pid"])), s.poll(first[0])
        s.ev("run")
        last = [s.pub(q=1, payload=b"c%d" % k) for k in range(2)]
        for i_ in last:
            s.poll(i_)
        for i_ in last:
            s.poll(i_)
        out.append(case("run-again-R%d" % R, s.script(), ["run-again", "R%d" % R]))
    for R in (2, 3):
        for other in ("puback", "pubcomp", "pubrecfail"):
            s = S(connack_props=[(33, R)])
            x = s.pub(q=2, payload=b"X")
            y = s.pub(q=1 if other == "puback" else 2, payload=b"Y")
            s.poll(x), s.poll(y)
            px, py = s.ops[x]["pid"], s.ops[y]["pid"]
            if other == "pubcomp":
                s.deliver(M.pubrec(py)), s.poll(y)
            tailpk = {"puback": M.puback(py), "pubcomp": M.pubcomp(py), "pubrecfail": M.pubrec(py, 145)}[other]
            s.deliver(M.pubrec(px) + tailpk)          # one read: PUBREC(X) ok, then Y completes - X's future not polled in between
            more = [s.pub(q=1, payload=b"n%d" % k) for k in range(R)]
            for i_ in more:
                s.poll(i_)
            for i_ in more:
                s.poll(i_)
            s.poll(x), s.poll(y)
            out.append(case("pubrec-then-%s-R%d" % (other, R), s.script(), ["between-phases", "R%d" % R]))
    for R in (1, 2):
        for q in (1, 2):
            for between in ("ping", "pub0", "refused"):
                s = S(connack_props=[(33, R)])
                fill = [s.pub(q=q, payload=b"f%d" % k) for k in range(R)]
                for i_ in fill:
                    s.poll(i_)
                if q == 2:
                    for i_ in fill:
                        s.deliver(M.pubrec(s.ops[i_]["pid"])), s.poll(i_)
                s.ev("dropop %d" % fill[0])
                x = s.ping() if between == "ping" else (s.pub(q=0) if between == "pub0" else s.pub(q=1, payload=b"r"))
                s.poll(x), s.poll(x)
                pid0 = s.ops[fill[0]]["pid"]
                s.deliver(M.puback(pid0) if q == 1 else M.pubcomp(pid0))
                nxt = [s.pub(q=1, payload=b"n1"), s.pub(q=1, payload=b"n2")]
                for i_ in nxt:
                    s.poll(i_)
                for i_ in nxt:
                    s.poll(i_)
                out.append(case("dropped-R%d-q%d-%s" % (R, q, between), s.script(), ["dropped", "R%d" % R]))
    for R, via in ((1, False), (2, False), (3, False), (1, True), (2, True)):
        for comp in ("puback", "pubcomp", "pubrecfail", "pubackfail", "pubcompfail"):
            s = S(connack_props=[(33, R)], via_auth=via)
            q = 1 if comp.startswith("puback") else 2
            ops = [s.pub(q=q) for _ in range(R + 1)]
            for i in ops:
                s.poll(i)
            s.poll(ops[-1])                       # refused: QuotaExceeded, nothing written
            z, pg = s.pub(q=0), s.ping()          # never limited
            s.poll(z), s.poll(z), s.poll(pg)
            # complete the first one
            if comp == "puback":
                s.deliver(M.puback(1))
            elif comp == "pubackfail":
                s.deliver(M.puback(1, 135))
            elif comp == "pubrecfail":
                s.deliver(M.pubrec(1, 151))
            else:
                s.deliver(M.pubrec(1)), s.poll(ops[0])
                s.deliver(M.pubcomp(1, 146 if comp == "pubcompfail" else 0))
            s.poll(ops[0])
            more = [s.pub(q=1) for _ in range(2)]
            for i in more:
                s.poll(i)
            for i in more:
                s.poll(i)                          # one accepted, one refused
            out.append(case("R%d-%s%s" % (R, comp, "-auth" if via else ""), s.script(), ["R%d" % R, comp] + (["via-auth"] if via else [])))
    for R in (1, 3):
        for q in (1, 2):
            s = S(connack_props=[(33, R), (39, 32)])
            big = [s.pub(q=q, payload=b"x" * 40) for _ in range(2)]
            for i in big:
                s.poll(i)
            for i in big:
                s.poll(i)
            ok = [s.pub(q=1) for _ in range(R + 1)]
            for i in ok:
                s.poll(i)
            for i in ok:
                s.poll(i)                       # R accepted, one refused
            out.append(case("oversized-R%d-q%d" % (R, q), s.script(), ["R%d" % R, "oversized"]))
    # the same Context connected again: the quota is that of the new CONNACK, minus what is re-sent on resumption
    for R1, R2 in ((2, 2), (3, 3), (3, 2), (2, 3), (1, 1), (3, None), (None, 2)):
        for resumed in (True, False):
            s = S(connack_props=[(33, R1)] if R1 else [], connect_opts="sei=1000")
            a, b = s.pub(q=1, payload=b"A"), s.pub(q=2, payload=b"B")
            s.poll(a), s.poll(b)
            if (R1 or 9) >= 3:
                c3 = s.pub(q=2, payload=b"C")
                s.poll(c3), s.deliver(M.pubrec(s.ops[c3]["pid"])), s.poll(c3)      # PUBREL sent, PUBCOMP outstanding
            s.ev("markdisc %d" % (10 if resumed else 5000)), s.ev("reconnect"), s.ev("connect sei=1000")
            s.deliver(M.connack(1 if resumed else 0, 0, [(33, R2)] if R2 else [])), s.ev("run")
            more = [s.pub(q=1, payload=b"n%d" % k) for k in range((R2 or 4) + 1)]
            for i in more:
                s.poll(i)
            for i in more:
                s.poll(i)
            if resumed:
                s.deliver(M.puback(s.ops[a]["pid"])), s.poll(a)
                late = [s.pub(q=1, payload=b"late"), s.pub(q=1, payload=b"late2")]
                for i in late:
                    s.poll(i)
                for i in late:
                    s.poll(i)
            out.append(case("reconnect-R%s-R%s-%s" % (R1, R2, "resumed" if resumed else "expired"), s.script(), ["reconnect", "R%s" % R2]))
    # default R = 65535: no refusal after many publishes
    s = S()
    s.ev("spin 300 1000 pub1 0")
    i = s.pub(q=1)
    s.pid_ctr = 301
    s.poll(i), s.poll(i)
    out.append(case("default-R", s.script(), ["Rabsent"]))
    # duplicate / stray acknowledgements never push the quota above R (unconditional range)
    s = S(connack_props=[(33, 2)])
    s.deliver(M.puback(9)), s.deliver(M.pubcomp(9)), s.deliver(M.pubrec(9, 128))
    ops = [s.pub(q=1) for _ in range(3)]
    for i in ops:
        s.poll(i)
    for i in ops:
        s.poll(i)
    out.append(case("stray-acks", s.script(), ["stray"]))
    for nm, pk in (("puback", M.puback(7, 128)), ("pubrec", M.pubrec(7, 128)), ("pubcomp", M.pubcomp(7, 146)),
                   ("pubrec-ok", M.pubrec(7, 16))):
        s = S()                                   # no Receive Maximum announced: R = 65535, quota full
        s.deliver(pk), s.deliver(pk)
        ops = [s.pub(q=1), s.pub(q=2)]
        for i in ops:
            s.poll(i)
        for i in ops:
            s.poll(i)
        out.append(case("stray-full-%s" % nm, s.script(), ["stray", "Rabsent"]))
    for k in range(n_cases(tier, 150, 3000)):
        out.append(walk(rng, rng.choice([30, 60]) if tier == "quick" else rng.choice([80, 300]),
                        {"kinds": ["pub0", "pub1", "pub2", "pub1", "pub2", "ping"], "fail": 0.35,
                         "rmax": rng.choice([1, 2, 3, 5])}, "walk%d" % k))
    return out + r6("C10") + r7("C10") + r8("C10") + r9("C10")


# ---- C11 ------------------------------------------------------------------------------------------
@generator("C11", "Histories of more than 2^16 identifier-consuming operations (spin batches of every kind, "
           "with windows of outstanding operations across the wrap-around), identifiers read off the wire.")
def c11(tier, rng):
    out = []
    st = S()
    first = st.sub(b"first")
    st.poll(first), st.deliver(M.suback(1)), st.poll(first), st.ev("tostream %d" % first)
    st.ev("spin 65533 5000 pub1 1")
    st.pid_ctr, st.sub_ctr = 65535, 2
    again = [st.sub(b"second"), st.sub(b"third"), st.unsub(b"x"), st.sub(b"fourth")]
    for i_ in again:
        st.poll(i_)
    out.append(case("subscribe-after-a-lap", st.script(), ["wrap", "subid"], release=False))
    st = S()
    st.ev("clone 0 1"), st.ev("clone 1 2")
    hs = [0, 1, 0, 2, 1, 2, 0]
    subs_ = [st.sub(b"s%d" % k, handle=h) for k, h in enumerate(hs)]
    for i_ in subs_:
        st.poll(i_)
    pubs_ = [st.pub(q=1, handle=h) for h in (2, 0, 1)]
    for i_ in pubs_:
        st.poll(i_)
    out.append(case("clones-subscribe", st.script(), ["clones"]))
    for n_before in (1, 3):
        st = S()
        st.ev("clone 0 1")
        warm = [st.pub(q=1, payload=b"w%d" % k) for k in range(n_before)]
        for i_ in warm:
            st.poll(i_), st.deliver(M.puback(st.ops[i_]["pid"])), st.poll(i_)
        st.ev("hold")
        d = st.disc(handle=0)
        st.poll(d)
        late = st.pub(q=1, payload=b"queued behind DISCONNECT", handle=1)
        st.poll(late)
        st.ev("release"), st.poll(d)
        st.ev("reconnect"), st.ev("connect"), st.deliver(M.connack()), st.ev("run")
        again = [st.pub(q=1, payload=b"n%d" % k, handle=1) for k in range(n_before + 3)] + [st.sub(b"z", handle=1), st.unsub(b"z", handle=1)]
        for i_ in again:
            st.poll(i_)
        out.append(case("queued-behind-disconnect-%d" % n_before, st.script(), ["clones", "reconnect"]))
    s = S()
    s.ev("spin 65534 0 pub1 1")
    s.ev("spin 5 70000 sub 1")
    out.append(case("wrap-pub1", s.script(), ["wrap"], release=False))
    # a window of outstanding operations across the wrap
    s = S()
    s.ev("spin 65500 0 unsub 1")
    s.ev("spin 60 70000 pub1 0")
    s.ev("spin 20 71000 pub2 1")
    out.append(case("wrap-window", s.script(), ["wrap", "window"], release=False))
    for kind in ("pub1", "pub2", "sub", "unsub"):
        s = S()
        s.ev("spin 65535 0 pub1 1")            # 65535 allocations: the counter has wrapped to 0
        s.ev("spin 3 70000 %s 0" % kind)       # the next allocation, of every kind, while it stays outstanding
        s.ev("spin 3 71000 pub1 1")
        out.append(case("wrap-met-by-%s" % kind, s.script(), ["wrap", "wrapkind"], release=False))
    if tier == "thorough":
        s = S()
        s.ev("spin 65534 0 pub2 1")
        s.ev("spin 65540 70000 unsub 1")      # (not sub: every subscribe leaves a registration behind, 65540 of them make the model quadratic)
        s.ev("spin 40 139000 sub 1")
        s.ev("spin 10 140000 pub1 1")
        out.append(case("wrap-twice", s.script(), ["wrap2"], release=False))
    # refusals (Receive Maximum reached, packet too large) seen by the publisher only at its next poll, with other
    # operations allocating identifiers from other clones in between
    for R, mp in ((1, None), (2, None), (3, 40), (1, 40)):
        s = S(connack_props=[(33, R)] + ([(39, mp)] if mp else []))
        s.ev("clone 0 1")
        held = [s.pub(q=1 + k % 2, handle=k % 2) for k in range(R)]
        for i in held:
            s.poll(i)
        refused = s.pub(q=1, payload=b"y" * (60 if mp else 1))
        s.poll(refused)
        c1, c2 = s.sub(b"s", handle=1), s.unsub(b"u")
        s.poll(c1)
        s.poll(refused)                                        # the refusal is delivered now
        s.poll(c2)
        d1, d2 = s.pub(q=2, handle=1), s.sub(b"t")
        s.poll(d1), s.poll(d2), s.poll(d1)
        out.append(case("refused-R%d-%s" % (R, mp), s.script(), ["refused"]))
    for k in range(n_cases(tier, 30, 600)):
        out.append(walk(rng, rng.choice([40, 80]) if tier == "quick" else rng.choice([80, 300]),
                        {"kinds": ["pub1", "pub2", "sub", "unsub", "pub1"], "rmax": rng.choice([1, 2, 3]), "fail": 0.2,
                         "sizes": [1, 1, 30], "maxpkt": rng.choice([None, 20, 28])}, "refusalwalk%d" % k))
    # the first 16400 subscribe() calls: subscription identifiers across the 1|2 and 2|3 byte boundaries of the variable
    # byte integer
    s = S()
    for j in range(8):
        s.ev("spin 2050 %d sub 1" % (100000 + 3000 * j))
    out.append(case("subids-16400", s.script(), ["subid-boundary"], release=False))
    # mixed kinds and clones, short
    for k in range(n_cases(tier, 20, 200)):
        s = S()
        s.ev("clone 0 1")
        for j in range(rng.randint(3, 8)):
            s.ev("spin %d %d %s %d" % (rng.randint(1, 40), 1000 * (j + 1), rng.choice(["pub1", "pub2", "sub", "unsub"]),
                                      rng.choice([0, 1])))
        out.append(case("mixed%d" % k, s.script(), ["mixed"]))
    # implementation only (the model allocates in one atomic step, as the AtomicU16/AtomicU32 it abstracts): operations issued
    # concurrently from clones of the handle on 8 OS threads while this thread drives run(); and more than 2^16 subscribe() calls
    for rep in range(3 if tier == "quick" else 10):
        c = case("threads-%d" % rep, S().script() + " ; threads 8 %d" % (2000 + 37 * rep), ["threads"], release=True)
        c["model"] = False
        out.append(c)
    c = case("subscribes-65600", S().script() + " ; spinsub 65600", ["subid-wrap16"], release=False)
    c["model"] = False
    out.append(c)
    return out + r6("C11") + r7("C11") + r8("C11") + r9("C11")


# ---- C12 ------------------------------------------------------------------------------------------
@generator("C12", "Every request kind x payload/topic sizes giving a range of L x M in {L-1, L, L+1, 1, 2^32-1, "
           "absent}; after a rejection the script goes on and checks quota and stray completions.")
def c12(tier, rng):
    out = []
    n = 0
    kinds = [("pub0", 0), ("pub1", 0), ("pub2", 0), ("sub", 0), ("unsub", 0), ("ping", 0), ("disc", 0)]
    sizes = [0, 1, 100, 120, 127] if tier == "quick" else [0, 1, 50, 100, 110, 111, 112, 113, 114, 115, 120, 127, 128, 300, 16383]
    for kind, _ in kinds:
        for sz in (sizes if kind.startswith("pub") or kind in ("sub", "unsub") else [0]):
            # L computed from the standard's layout
            if kind.startswith("pub"):
                q = int(kind[3])
                L = len(M.publish(b"t", b"x" * sz, q, 1 if q else None))
            elif kind == "sub":
                L = len(M.packet(0x82, M.u16(1) + M.props([(11, 1)]) + M.binf(b"f" * (sz + 1)) + b"\x00"))
            elif kind == "unsub":
                L = len(M.packet(0xa2, M.u16(1) + M.props([]) + M.binf(b"f" * (sz + 1))))
            elif kind == "ping":
                L = 2
            else:
                L = 4
            for Mx in (L - 1, L, L + 1, 1, 4294967295, None):
                if Mx is not None and Mx < 1:
                    continue
                s = S(connack_props=([(39, Mx)] if Mx else []) + [(33, 1)])
                if kind.startswith("pub"):
                    i = s.pub(q=int(kind[3]), payload=b"x" * sz)
                elif kind == "sub":
                    i = s.sub(topic=b"f" * (sz + 1), flags="0000")
                elif kind == "unsub":
                    i = s.unsub(topic=b"f" * (sz + 1))
                elif kind == "ping":
                    i = s.ping()
                else:
                    i = s.disc()
                s.poll(i), s.poll(i)
                # afterwards: quota still R=1 unless the packet went out; no stray completion
                if kind != "disc":
                    j = s.pub(q=1, topic=b"", payload=b"")     # smallest QoS 1 publish: 7 bytes
                    s.poll(j), s.poll(j)
                    s.deliver(M.pingresp())
                    s.deliver(M.publish(b"t", b"", ps=[(11, 1)]))
                    s.poll(i), s.poll(j)
                out.append(case("c%d" % n, s.script(), [kind, "M=L%+d" % (Mx - L) if Mx and abs(Mx - L) <= 1 else "M=%s" % Mx],
                                L=L, M=Mx, kind=kind))
                # "written in full" however the transport takes the bytes: a few at a time, with Pending in between
                if n % 3 == 0:
                    wm = ["wmode 0 1", "wmode 3 2 5 1", "wmode 2 7", "wmode 0 3"][(n // 3) % 4]
                    out.append(case("c%dw" % n, wm + " ; " + s.script(), [kind, "partial-writes"], L=L, M=Mx, kind=kind))
                n += 1
    TIER_THOROUGH[0] = (tier == "thorough")
    out += c12_extra()
    return out + r6("C12") + r7("C12") + r8("C12") + r9("C12")


# ---- C13 ------------------------------------------------------------------------------------------
DISC_R = [0, 4, 128, 129, 130, 131, 135, 137, 139, 141, 142, 143, 144, 147, 148, 149, 150, 151, 152, 153, 154,
          155, 156, 157, 158, 159, 160, 161, 162]
CONNACK_R = [0, 128, 129, 130, 131, 132, 133, 134, 135, 136, 137, 138, 140, 144, 149, 151, 153, 154, 155, 156,
             157, 159]


def c12_extra():
    out = []
    L = len(M.publish(b"t", b"p" * 20))                # QoS 0: 2 + 3 + 1 + 20 = 26 bytes
    for first, second in ((L + 10, L - 1), (L - 1, L), (None, L - 1), (L - 1, None), (L, L + 5)):
        s = S(connack_props=[(39, first)] if first else [])
        a = s.pub(q=0, payload=b"p" * 20)
        s.poll(a), s.poll(a)
        s.ev("eof")
        s.ev("reconnect"), s.ev("connect"), s.deliver(M.connack(ps=[(39, second)] if second else [])), s.ev("run")
        b = s.pub(q=0, payload=b"p" * 20)
        s.poll(b), s.poll(b)
        g = s.ping()
        s.poll(g), s.deliver(M.pingresp()), s.poll(g)
        out.append(case("reconnect-%s-%s" % (first, second), s.script(), ["reconnect"]))
    # the limit the CLIENT announces in its CONNECT says nothing about what it may send
    for own in (16, 5):
        s = S(connect_opts="mps=%d" % own)
        ops = [s.pub(q=0, payload=b"p" * 20), s.sub(b"filter/one"), s.unsub(b"filter/one"), s.ping(), s.disc("r=4 rs=%s" % hx(b"bye for now"))]
        for i in ops:
            s.poll(i)
        for i in ops:
            s.poll(i)
        out.append(case("own-limit-%d" % own, s.script(), ["own-limit"]))
    for R in (1, 2):
        for q in (1, 2):
            s = S(connack_props=[(33, R), (39, 40)])
            fill = [s.pub(q=1, payload=b"f") for _ in range(R)]
            for i in fill:
                s.poll(i)
            big = s.pub(q=q, payload=b"B" * 60)
            s.poll(big), s.poll(big)
            s.deliver(M.puback(s.ops[fill[0]]["pid"])), s.poll(fill[0])
            nxt = s.pub(q=1, payload=b"n")
            s.poll(nxt), s.poll(nxt)
            out.append(case("oversized-at-quota-R%d-q%d" % (R, q), s.script(), ["oversized", "quota"]))
    for Mx in (12, 40):
        s = S(connack_props=[(39, Mx)], via_auth=True)
        fits = s.pub(q=0, topic=b"t", payload=b"x" * (Mx - 6))
        big0, big1 = s.pub(q=0, topic=b"t", payload=b"x" * (Mx - 5)), s.pub(q=1, topic=b"t", payload=b"x" * Mx)
        sb, us, pg = s.sub(b"a/very/long/topic/filter/that/does/not/fit/into/forty/bytes"), s.unsub(b"a/very/long/topic/filter/that/does/not/fit/into/forty"), s.ping()
        for i in (fits, big0, big1, sb, us, pg):
            s.poll(i)
        for i in (fits, big0, big1, sb, us, pg):
            s.poll(i)
        out.append(case("limit-via-auth-%d" % Mx, s.script(), ["via-auth"]))
    for R in (1, 2):
        s = S(connack_props=[(33, R), (39, 20)])
        fill = [s.pub(q=1, topic=b"t", payload=b"f%d" % k) for k in range(R)]
        for i in fill:
            s.poll(i)
        big = s.pub(q=1, topic=b"t", payload=b"B" * 40)
        s.poll(big), s.poll(big)
        nxt = s.pub(q=1, topic=b"t", payload=b"n")
        s.poll(nxt), s.poll(nxt)                       # the quota is still used up: refused, nothing written
        s.deliver(M.puback(s.ops[fill[0]]["pid"])), s.poll(fill[0])
        n2, n3 = s.pub(q=1, topic=b"t", payload=b"o"), s.pub(q=1, topic=b"t", payload=b"p")
        s.poll(n2), s.poll(n3), s.poll(n2), s.poll(n3)  # exactly one slot came back
        out.append(case("oversize-keeps-quota-R%d" % R, s.script(), ["oversized", "quota"]))
    for sp_ in (0, 1):
        s = S(run=False)
        s.evs = ["connect", "deliver " + hx(M.connack(sp_, 0, [(39, 40)])), "run"]
        fits, big0, big1 = s.pub(q=0, topic=b"t", payload=b"x" * 34), s.pub(q=0, topic=b"t", payload=b"x" * 35), s.pub(q=1, topic=b"t", payload=b"x" * 60)
        for i in (fits, big0, big1):
            s.poll(i)
        for i in (fits, big0, big1):
            s.poll(i)
        out.append(case("limit-session-present-%d" % sp_, s.script(), ["session-present"]))
    for others in (1, 2):
        s = S(connack_props=[(39, 40)])
        inflight = [s.pub(q=1, topic=b"t", payload=b"p%d" % k) for k in range(others)] + [s.unsub(b"u")]
        for i in inflight:
            s.poll(i)
        bigsub = s.sub(b"a/very/long/topic/filter/that/does/not/fit/into/forty/bytes")
        s.poll(bigsub), s.poll(bigsub)
        for i in inflight[:-1]:
            s.deliver(M.puback(s.ops[i]["pid"]))
        s.deliver(M.unsuback(s.ops[inflight[-1]]["pid"]))
        for i in inflight:
            s.poll(i)
        small = s.sub(b"ok")
        s.poll(small), s.deliver(M.suback(s.ops[small]["pid"])), s.poll(small)
        out.append(case("oversized-subscribe-among-%d" % others, s.script(), ["oversized", "in-flight"]))
    return out


def session_states():
    """prefix builders: reachable session states at the moment a terminating cause occurs"""
    def idle(s):
        pass

    def outstanding(s):
        a, b, c = s.pub(q=1), s.ping(), s.sub()
        s.poll(a), s.poll(b), s.poll(c)

    def streams(s):
        a = s.sub()
        s.poll(a), s.deliver(M.suback(1)), s.poll(a), s.ev("tostream %d" % a)
        s.deliver(M.publish(b"t", b"buffered", ps=[(11, 1)]))

    def midqos2(s):
        a = s.pub(q=2)
        s.poll(a), s.deliver(M.pubrec(1)), s.poll(a)
        s.deliver(M.publish(b"t", b"in", 2, 44))
    return [("idle", idle), ("outstanding", outstanding), ("streams", streams), ("midqos2", midqos2)]


@generator("C13", "Every terminating cause (user DISCONNECT, server DISCONNECT with every reason and property "
           "set, EOF, read error, write error, last handle dropped, undecodable input) x {idle, operations "
           "outstanding, streams open, mid-QoS 2}; every CONNACK reason, AUTH, EOF for connect().")
def c13(tier, rng):
    out = []
    for n_in in (100, 400):
        for what in ("disc", "handles"):
            st = S()
            st.ev("hold")
            for k in range(n_in):
                st.deliver(M.publish(b"t", b"busy %d" % k, 1, 1 + k % 60000))
            if what == "disc":
                d = st.disc()
                st.poll(d)
            else:
                st.ev("drophandle 0")
            st.ev("eof"), st.ev("release")
            c_ = case("busy-reader-%s-%d" % (what, n_in), st.script(), ["fairness"], release=True)
            c_["model"] = False
            out.append(c_)
    for k in (0, 1, 5):
        out.append(case("connect-zerowrite-%d" % k, "werr0 %d ; connect ; deliver %s" % (k, hx(M.connack())), ["connect", "zerowrite"]))
    for what in ("ping", "pub1", "ack1", "ack2", "disc"):
        for k in (0, 1, 3):
            if what == "ping" and k >= 2:
                continue                      # PINGREQ has two bytes
            st = S()
            st.ev("werr0 %d" % k)
            if what == "ping":
                g = st.ping()
                st.poll(g), st.poll(g)
            elif what == "pub1":
                g = st.pub(q=1)
                st.poll(g), st.poll(g)
            elif what == "disc":
                g = st.disc()
                st.poll(g), st.poll(g)
            else:
                st.deliver(M.publish(b"t", b"x", 1 if what == "ack1" else 2, 9))
            out.append(case("werr-zero-%s-%d" % (what, k), st.script(), ["werr", "zerowrite"]))
    for keep in ("rsp", "stream", "both"):
        st = S()
        st.ev("clone 0 1")
        a, b = st.sub(b"a"), st.sub(b"b", handle=1)
        st.poll(a), st.poll(b), st.deliver(M.suback(1)), st.deliver(M.suback(2)), st.poll(a), st.poll(b)
        if keep in ("stream", "both"):
            st.ev("tostream %d" % a)
        if keep == "stream":
            st.ev("dropop %d" % b)
        st.deliver(M.publish(b"a", b"buffered", 0, None, ps=[(11, 1)]))
        st.ev("drophandle 1"), st.ev("drophandle 0")
        out.append(case("handles-with-%s-alive" % keep, st.script(), ["handleclosed", "streams"]))
    long_rs = b"r" * 150
    for cut in (1, 2, 3):
        ca = M.connack(0, 0, [(31, long_rs)])
        out.append(case("connackcut-r0-%d" % cut, "connect ; deliver %s ; deliver %s ; run" % (hx(ca[:cut]), hx(ca[cut:])), ["connect", "cut"]))
        cr = M.connack(0, 135, [(31, long_rs)])
        out.append(case("connack-refusal-r135-cut%d" % cut, "connect ; deliver %s ; deliver %s ; run" % (hx(cr[:cut]), hx(cr[cut:])), ["connect", "cut"]))
        for r in (0, 139):
            d = M.disconnect(r, [(31, long_rs)], "long")
            st = S()
            a_ = st.pub(q=2)
            st.poll(a_), st.deliver(M.pubrec(1)), st.poll(a_)
            st.deliver(d[:cut]), st.deliver(d[cut:])
            out.append(case("srvdisc-long-r%d-cut%d" % (r, cut), st.script(), ["srvdisc", "cut"]))
            st = S()
            g = st.ping()
            st.poll(g)
            glued = M.pingresp() + d
            st.deliver(glued[:2 + cut]), st.deliver(glued[2 + cut:]), st.poll(g)
            out.append(case("srvdisc-glued-r%d-cut%d" % (r, cut), st.script(), ["srvdisc", "cut", "glued"]))
    for via_clone in (False, True):
        st = S(connack_props=[(39, 3)])
        if via_clone:
            st.ev("clone 0 1")
        d = st.disc("r=4 rs=%s" % hx(b"too long for three bytes"), handle=1 if via_clone else 0)
        st.poll(d), st.poll(d)
        if via_clone:
            st.ev("drophandle 1")
        g = st.ping()
        st.poll(g), st.deliver(M.pingresp()), st.poll(g)
        out.append(case("nocause-refused-disconnect%s" % ("-clone" if via_clone else ""), st.script(), ["nocause", "refused-disc"]))
    for via_clone in (False, True):
        st = S()
        if via_clone:
            st.ev("clone 0 1")
        d = st.disc(handle=1 if via_clone else 0)
        st.poll(d), st.poll(d)
        if via_clone:
            st.ev("drophandle 1")
        st.ev("reconnect"), st.ev("connect"), st.deliver(M.connack()), st.ev("run")
        g = st.ping()
        st.poll(g), st.deliver(M.pingresp()), st.poll(g)
        q = st.pub(q=1)
        st.poll(q), st.deliver(M.puback(st.ops[q]["pid"])), st.poll(q)
        out.append(case("again-after-disconnect%s" % ("-clone" if via_clone else ""), st.script(), ["reconnect", "nocause2"]))
    for r in CONNACK_R:
        ps = [(31, b"reason"), (28, b"other.example"), (38, (b"k", b"v"))] if r else [(33, 10), (18, b"cid")]
        out.append(case("connack-r%d" % r, "connect cid=63 ; deliver %s ; run ; eof" % hx(M.connack(r == 0 and 1 or 0, r, ps)),
                        ["connect"]))
    out.append(case("connect-auth", "connect am=6d ad=01 ; deliver %s ; auth r=24 am=6d ad=02 ; deliver %s ; run ; eof"
                    % (hx(M.auth(24, [(21, b"m"), (22, b"\x09")])), hx(M.connack())), ["auth"]))
    for r in (135, 157):
        for sia in (0, 1):
            out.append(case("connack-refusal-r%d-sia%d" % (r, sia), "connect ; deliver %s ; run" % hx(M.connack(0, r, [(41, sia), (31, b"no")])), ["connect"]))
    out.append(case("connect-eof", "connect ; eof", ["connect-eof"]))
    out.append(case("connect-rerr", "connect ; rerr", ["connect-eof"]))
    out.append(case("connect-werr", "werr 5 ; connect", ["connect-werr"]))
    out.append(case("connect-half-eof", "connect ; deliver 2003 ; eof", ["connect-eof"]))
    for name, pre in session_states():
        def mk():
            s = S()
            pre(s)
            return s
        # user disconnect; nothing after it
        s = mk()
        d = s.disc("r=4 rs=627965")
        p = s.ping()
        s.ev("hold"), s.poll(d), s.poll(p), s.ev("release"), s.poll(d), s.poll(p)
        out.append(case("userdisc-" + name, s.script(), ["userdisc"]))
        # the disconnect() future is dropped after its first poll (request queued, not yet processed)
        s = mk()
        d = s.disc()
        p = s.pub(q=1, payload=b"after")
        s.ev("hold"), s.poll(d), s.ev("dropop %d" % d), s.poll(p), s.ev("release"), s.poll(p)
        s.deliver(M.publish(b"t", b"late", 1, 77))
        out.append(case("userdisc-dropped-" + name, s.script(), ["userdisc", "dropped"]))
        for r in (DISC_R if name == "idle" or tier == "thorough" else [0, 4, 139, 142]):
            for form in ("auto", "long"):
                s = mk()
                ps = [(31, b"bye"), (28, b"srv2"), (38, (b"a", b"1")), (38, (b"a", b"2"))] if form == "long" else []
                s.deliver(M.disconnect(r, ps, form))
                s.deliver(M.pingresp())
                out.append(case("srvdisc-%s-r%d-%s" % (name, r, form), s.script(), ["srvdisc"]))
        for cause in ("eof", "rerr"):
            s = mk()
            s.ev(cause)
            out.append(case("%s-%s" % (cause, name), s.script(), [cause]))
        s = mk()
        s.ev("werr 1")
        p = s.ping()
        s.poll(p), s.poll(p)
        out.append(case("werr-" + name, s.script(), ["werr"]))
        s = mk()
        s.ev("clone 0 1"), s.ev("drophandle 0")
        p = s.ping(handle=1)
        s.poll(p), s.ev("drophandle 1")
        for i in list(s.ops):
            if i != p:
                s.ev("dropop %d" % i)
        s.deliver(M.pingresp()), s.deliver(M.pingresp()), s.poll(p)
        out.append(case("handles-" + name, s.script(), ["handleclosed"]))
        for bad in ("1000", "400105", "2003000000", "f000", "30020000", "9004000100ff"):
            s = mk()
            s.ev("deliver " + bad)
            out.append(case("undecodable-%s-%s" % (name, bad), s.script(), ["undecodable"]))
        for glue in (M.puback(77), M.publish(b"z", b"zz"), M.pingresp()):
            for d in (M.disconnect(0), M.disconnect(139, form="short1"), M.disconnect(0, [(31, b"bye")], "long")):
                s = mk()
                s.deliver(glue + d)
                out.append(case("glued-%s-%s-%s" % (name, hx(glue[:1]), hx(d)), s.script(), ["srvdisc", "glued"]))
        # no cause: run() must not return
        s = mk()
        s.deliver(M.pingresp()), s.deliver(M.puback(77)), s.deliver(M.publish(b"z", b"z"))
        out.append(case("nocause-" + name, s.script(), ["nocause"]))
    return out + r6("C13") + r7("C13") + r8("C13") + r9("C13")


# ---- C14 ------------------------------------------------------------------------------------------
@generator("C14", "dropctx injected after every prefix of bounded histories (operations queued but unsent, "
           "awaiting acknowledgement, between the QoS 2 phases; streams with and without buffered messages), "
           "then every pending future and stream is polled; operations started afterwards; random walks.")
def c14(tier, rng):
    out = []
    for n in (65534, 65535, 65536):
        st = S()
        st.ev("spin %d 5000 pub1 1" % n)
        st.ev("dropctx")
        late = [st.pub(q=1), st.pub(q=2), st.sub(b"x"), st.unsub(b"y"), st.ping(), st.pub(q=0), st.disc()]
        for i in late:
            st.poll(i)
        out.append(case("wrapped-then-gone-%d" % n, st.script(), ["wrap", "late"], release=False))
    for backlog in (10, 64, 65, 200):
        st = S()
        a = st.sub(b"a")
        st.poll(a), st.deliver(M.suback(1)), st.poll(a), st.ev("tostream %d" % a)
        for k in range(backlog):
            st.deliver(M.publish(b"a", b"n%d" % k, 0, None, ps=[(11, 1)]))
        st.ev("eof"), st.ev("dropctx"), st.ev("drophandle 0")
        for k in range(backlog + 2):
            st.ev("pollstream %d" % a)
        out.append(case("backlog-then-gone-%d" % backlog, st.script(), ["backlog"]))
    base = []

    def build(upto):
        s = S()
        steps = []
        a = s.pub(q=2)
        b = s.sub()
        c = s.ping()
        d = s.pub(q=1)
        e = s.unsub()
        steps += [lambda: s.poll(a), lambda: s.poll(b), lambda: s.deliver(M.suback(2)), lambda: s.poll(b),
                  lambda: s.ev("tostream %d" % b), lambda: s.deliver(M.publish(b"t", b"one", ps=[(11, 1)])),
                  lambda: s.deliver(M.pubrec(1)), lambda: s.poll(a), lambda: s.ev("hold"), lambda: s.poll(c),
                  lambda: s.poll(d), lambda: s.ev("release"), lambda: s.deliver(M.publish(b"t", b"two", 1, 5, ps=[(11, 1)])),
                  lambda: s.poll(e), lambda: s.deliver(M.pubcomp(1)), lambda: s.poll(a)]
        for k in range(upto):
            steps[k]()
        return s, (a, b, c, d, e), len(steps)
    _, _, nsteps = build(0)
    for upto in range(nsteps + 1):
        s, ops, _ = build(upto)
        held = any(x == "hold" for x in s.evs) and not any(x == "release" for x in s.evs)
        s.ev("dropctx")
        for i in ops:
            if s.ops[i]["state"] != "stream" and not (i == ops[0] and upto >= nsteps):
                s.poll(i)
                s.poll(i) if False else None
        late = s.ping()
        s.poll(late)
        late2 = s.pub(q=1)
        s.poll(late2)
        if any(x.startswith("tostream") for x in s.evs):
            for _ in range(4):
                s.ev("pollstream %d" % ops[1])
        s.ev("sweep")
        out.append(case("prefix%d" % upto, s.script(), ["prefix", "held" if held else "settled"]))
    for cause in ("srvdisc", "eof", "undecodable"):
        for kinds in (("disc",), ("ping", "pub1", "disc"), ("sub", "pub2", "unsub", "pub0")):
            s = S()
            first = s.pub(q=1)
            s.poll(first)
            if cause == "srvdisc":
                s.deliver(M.disconnect(139))
            elif cause == "eof":
                s.ev("eof")
            else:
                s.ev("deliver 1000")
            # run() has returned; requests queued now are never processed
            ops = []
            for kd in kinds:
                mk = {"disc": lambda: s.disc("r=4"), "ping": s.ping, "pub0": lambda: s.pub(q=0), "pub1": lambda: s.pub(q=1),
                      "pub2": lambda: s.pub(q=2), "sub": s.sub, "unsub": s.unsub}[kd]
                i = mk()
                ops.append(i)
                s.poll(i)
            s.ev("dropctx")
            for i in [first] + ops:
                s.poll(i)
            s.ev("sweep")
            out.append(case("after-run-%s-%s" % (cause, "+".join(kinds)), s.script(), ["after-run", cause]))
    for k in range(n_cases(tier, 80, 2000)):
        out.append(walk(rng, rng.choice([10, 25, 50]) if tier == "quick" else rng.choice([20, 60, 200]),
                        {"streams": True, "hold": True, "dropctx_at_end": True, "fail": 0.1}, "walk%d" % k))
    return out + r6("C14") + r7("C14") + r8("C14") + r9("C14")


# ---- C15 ------------------------------------------------------------------------------------------
def k2_case():
    s = S(connack_props=[(33, 1)])
    a = s.pub(q=2)
    s.poll(a), s.ev("dropop %d" % a)
    s.deliver(M.pubrec(1))
    b = s.pub(q=1)
    s.poll(b), s.poll(b)
    return case("K2-qos2-dropped-before-pubrec", s.script(), ["K2"], k2=True)


@generator("C15", "Every operation kind x every cancellation point (before the first poll, queued, awaiting the "
           "acknowledgement, between the QoS 2 phases) with a second caller sharing the connection, the late "
           "acknowledgement delivered afterwards; dropped streams; then random walks with drops.")
def c15(tier, rng):
    out = [k2_case()]
    st = S()
    w_ = [st.pub(q=1, payload=b"w%d" % k) for k in range(2)]
    for i_ in w_:
        st.poll(i_), st.deliver(M.puback(st.ops[i_]["pid"])), st.poll(i_)
    gone = st.sub(b"gone")                       # packet identifier 3, subscription identifier 1
    st.poll(gone), st.ev("dropop %d" % gone)
    u_ = st.unsub(b"u")
    st.poll(u_), st.deliver(M.unsuback(st.ops[u_]["pid"])), st.poll(u_)
    live = [st.sub(b"d"), st.sub(b"e"), st.sub(b"f")]   # subscription identifiers 2, 3, 4
    for i_ in live:
        st.poll(i_)
    for i_ in live:
        st.deliver(M.suback(st.ops[i_]["pid"]))
    for i_ in live:
        st.poll(i_), st.ev("tostream %d" % i_)
    st.deliver(M.suback(st.ops[gone]["pid"]))    # the late SUBACK of the abandoned subscribe
    for k, i_ in enumerate(live):
        st.deliver(M.publish(b"x", b"for-%d" % k, 1, 20 + k, ps=[(11, 2 + k)]))
    st.deliver(M.publish(b"x", b"for-gone", 0, None, ps=[(11, 1)])), st.deliver(M.publish(b"x", b"for-gone-again", 1, 30, ps=[(11, 1)]))
    for i_ in live:
        st.ev("pollstream %d" % i_), st.ev("pollstream %d" % i_)
    out.append(case("late-suback-of-abandoned-subscribe", st.script(), ["dropped-stream", "abandoned"]))
    for kind in ("disc", "pub0", "pub1", "pub2", "sub", "unsub", "ping"):
        st = S()
        other = st.pub(q=1, payload=b"other caller")
        st.poll(other)
        x = {"disc": st.disc, "pub0": lambda: st.pub(q=0), "pub1": lambda: st.pub(q=1), "pub2": lambda: st.pub(q=2), "sub": st.sub,
             "unsub": st.unsub, "ping": st.ping}[kind]()
        st.ev("dropop %d" % x)
        del st.ops[x]
        g = st.ping()
        st.poll(g), st.deliver(M.pingresp()), st.poll(g)
        st.deliver(M.puback(1)), st.poll(other)
        out.append(case("never-polled-%s" % kind, st.script(), ["unpolled", kind]))
    # a dropped stream: what is sent for it is acknowledged like anything else, and its identifiers serve others afterwards
    st = S()
    a, b = st.sub(b"a"), st.sub(b"b")
    st.poll(a), st.poll(b), st.deliver(M.suback(1)), st.deliver(M.suback(2)), st.poll(a), st.poll(b)
    st.ev("tostream %d" % a), st.ev("tostream %d" % b), st.ev("dropstream %d" % a)
    st.deliver(M.publish(b"a", b"to the dead stream", 2, 7, ps=[(11, 1)])), st.deliver(M.pubrel(7))
    st.deliver(M.publish(b"a", b"again", 1, 8, ps=[(11, 1)]))
    st.deliver(M.publish(b"b", b"same id, live stream", 2, 7, ps=[(11, 2)])), st.deliver(M.pubrel(7))
    for _ in range(3):
        st.ev("pollstream %d" % b)
    out.append(case("dead-stream-qos2-then-reuse", st.script(), ["dropped-stream"]))
    # the abandoned QoS 2 exchange of K2 with a small Receive Maximum: whatever happens to its slot, the server's limit
    # on unfinished exchanges is respected
    for R in (1, 2):
        st = S(connack_props=[(33, R)])
        a = st.pub(q=2, payload=b"abandoned")
        st.poll(a), st.ev("dropop %d" % a), st.deliver(M.pubrec(1))
        more = [st.pub(q=1, payload=b"m%d" % k) for k in range(R + 1)]
        for i_ in more:
            st.poll(i_)
        for i_ in more:
            st.poll(i_)
        out.append(case("K2-then-more-R%d" % R, st.script(), ["K2", "R%d" % R]))
    for kind in ("pub1", "pub2", "unsub"):
        st = S()
        a = st.pub(q=1) if kind == "pub1" else (st.pub(q=2) if kind == "pub2" else st.unsub(b"u"))
        st.poll(a)
        if kind == "pub2":
            st.deliver(M.pubrec(1)), st.poll(a)
        st.ev("dropop %d" % a)
        st.deliver({"pub1": M.puback(1), "pub2": M.pubcomp(1), "unsub": M.unsuback(1)}[kind])
        st.ev("spin 65534 5000 pub1 1")
        st.pid_ctr = 1
        b = st.pub(q=1) if kind == "pub1" else (st.pub(q=2) if kind == "pub2" else st.unsub(b"u"))
        st.poll(b)
        if kind == "pub2":
            st.deliver(M.pubrec(1)), st.poll(b)
        st.deliver({"pub1": M.puback(1), "pub2": M.pubcomp(1), "unsub": M.unsuback(1)}[kind]), st.poll(b)
        out.append(case("cancel-then-wrap-%s" % kind, st.script(), ["wrap", kind], release=False))
    kinds = ["pub0", "pub1", "pub2", "sub", "unsub", "ping"]
    n = 0
    for kind, point, between in [(k_, p_, b_) for k_ in kinds for p_ in ("unpolled", "queued", "awaiting", "phase2")
                                 for b_ in (False, True)]:
        if True:
            if point == "phase2" and kind != "pub2":
                continue
            s = S(connack_props=[(33, 2)])
            other = s.pub(q=1, payload=b"other")
            s.poll(other)                                   # pid 1
            mk = {"pub0": lambda: s.pub(q=0), "pub1": lambda: s.pub(q=1), "pub2": lambda: s.pub(q=2),
                  "sub": lambda: s.sub(), "unsub": lambda: s.unsub(), "ping": lambda: s.ping()}[kind]
            i = mk()
            if point == "queued":
                s.ev("hold"), s.poll(i), s.ev("dropop %d" % i), s.ev("release")
            elif point == "unpolled":
                s.ev("dropop %d" % i)
            else:
                s.poll(i)
                if point == "phase2":
                    s.deliver(M.pubrec(2)), s.poll(i)
                s.ev("dropop %d" % i)
            if between:
                # somebody else's requests are processed before the late acknowledgement arrives
                bp, bz = s.ping(), s.pub(q=0, payload=b"between")
                s.poll(bp), s.poll(bz), s.poll(bz)
            # the late acknowledgement(s) of the abandoned operation
            pid = s.ops[i]["pid"]
            if s.ops[i]["polled"]:
                late = {"pub0": [], "pub1": [M.puback(pid or 2)], "sub": [M.suback(pid or 2)],
                        "unsub": [M.unsuback(pid or 2)], "ping": [M.pingresp()],
                        "pub2": ([M.pubcomp(pid or 2)] if point == "phase2" else [M.pubrec(pid or 2, 128)])}[kind]
                for pk in late:
                    s.deliver(pk)
            # the other caller and new operations are unaffected; the slot is free again
            s.deliver(M.puback(1)), s.poll(other)
            x, y = s.pub(q=1), s.pub(q=1)
            s.poll(x), s.poll(y), s.poll(x), s.poll(y)
            pg = s.ping()
            s.poll(pg), s.deliver(M.pingresp()), s.poll(pg)
            if between:
                s.deliver(M.pingresp()), s.poll(bp), s.poll(pg)
            out.append(case("cancel-%s-%s%s" % (kind, point, "-between" if between else ""), s.script(), [kind, point]))
            n += 1
    for q in (1, 2):
        for why in ("quota", "size"):
            s = S(connack_props=[(33, 1), (39, 30)])
            first = s.pub(q=1)
            s.poll(first)
            doomed = s.pub(q=q, payload=b"z" * (40 if why == "size" else 1))
            live = s.pub(q=1, payload=b"live")
            s.ev("hold"), s.poll(doomed), s.ev("dropop %d" % doomed), s.poll(live), s.ev("release")
            s.poll(live)
            s.deliver(M.puback(1)), s.poll(first)
            nxt = s.pub(q=1)
            s.poll(nxt), s.deliver(M.puback(s.ops[nxt]["pid"])), s.poll(nxt)
            out.append(case("cancel-queued-refused-q%d-%s" % (q, why), s.script(), ["queued", "refused"]))
    # the PUBREL request already queued when its future is dropped: the exchange the Context is committed to is finished
    for rmax in (1, 3):
        s = S(connack_props=[(33, rmax)])
        a = s.pub(q=2)
        s.poll(a), s.deliver(M.pubrec(1))
        s.ev("hold"), s.poll(a), s.ev("dropop %d" % a), s.ev("release")
        s.deliver(M.pubcomp(1))
        b = s.pub(q=1)
        s.poll(b), s.deliver(M.puback(s.ops[b]["pid"])), s.poll(b)
        out.append(case("cancel-pubrel-queued-R%d" % rmax, s.script(), ["queued", "pubrel"]))
    # dropping a stream
    s = S()
    a, b = s.sub(b"a"), s.sub(b"b")
    s.poll(a), s.poll(b), s.deliver(M.suback(1)), s.deliver(M.suback(2)), s.poll(a), s.poll(b)
    s.ev("tostream %d" % a), s.ev("tostream %d" % b), s.ev("dropstream %d" % a)
    s.deliver(M.publish(b"a", b"x", 1, 3, ps=[(11, 1)])), s.deliver(M.publish(b"b", b"y", 1, 4, ps=[(11, 2)]))
    s.deliver(M.publish(b"a", b"x2", 2, 5, ps=[(11, 1)]))
    s.ev("pollstream %d" % b), s.ev("pollstream %d" % b)
    out.append(case("dropstream", s.script(), ["dropstream"]))
    for k in range(n_cases(tier, 120, 2500)):
        out.append(walk(rng, rng.choice([20, 50]) if tier == "quick" else rng.choice([50, 200]),
                        {"drops": True, "streams": True, "hold": k % 2 == 0, "fail": 0.2,
                         "rmax": rng.choice([None, 2, 4]), "no_k2": True}, "walk%d" % k))
    return out + r6("C15") + r7("C15") + r8("C15") + r9("C15")


# ---- C16 ------------------------------------------------------------------------------------------
@generator("C16", "Every script of the C05/C07/C15 walks run with sweeps and forced (spurious) polls inserted at "
           "random positions, x 1-byte vs whole-packet read chunking x partial and pending writes; at every "
           "quiescence a sweep must change nothing.")
def c16(tier, rng):
    out = []
    for pk, nm in ((M.pingresp(), "pingresp"), (M.puback(1), "puback"), (M.publish(b"a", b"msg", 1, 9, ps=[(11, 1)]), "publish")):
        for between in ("sweep", "request", "fpoll"):
            st = S()
            a = st.sub(b"a")
            st.poll(a), st.deliver(M.suback(1)), st.poll(a), st.ev("tostream %d" % a)
            pg, pb = st.ping(), st.pub(q=1)
            st.poll(pg), st.poll(pb)
            st.deliver(pk[:1])
            if between == "sweep":
                st.ev("sweep")
            elif between == "fpoll":
                st.ev("fpoll %d" % pg)
            else:
                x = st.ping()
                st.poll(x)
            st.deliver(pk[1:])
            st.poll(pg), st.poll(pb), st.ev("pollstream %d" % a), st.ev("sweep")
            out.append(case("first-byte-then-%s-%s" % (between, nm), st.script(), ["first-byte"]))
    for where in ("idle", "mid-packet", "between"):
        st = S()
        pg = st.ping()
        st.poll(pg)
        if where == "mid-packet":
            st.deliver(M.publish(b"t", b"abc", 1, 9)[:4])
        if where == "between":
            st.deliver(M.puback(77))
        st.ev("rintr")
        st.deliver(M.pingresp()), st.poll(pg), st.ev("sweep"), st.poll(pg)
        out.append(case("interrupted-read-%s" % where, st.script(), ["rintr"]))
    for L, piece in ((209, 1), (209, 3), (209, 6), (2000, 7), (700, 2)):
        st = S()
        a = st.sub(b"a")
        st.poll(a), st.deliver(M.suback(1)), st.poll(a), st.ev("tostream %d" % a)
        pg = st.ping()
        st.poll(pg)
        pk = M.publish(b"a", bytes((i * 5) % 251 for i in range(L)), 1, 9, ps=[(11, 1)]) + M.pingresp()
        st.ev("hold")
        for k in range(0, len(pk), piece):
            st.deliver(pk[k:k + piece])
        st.ev("release")
        st.ev("pollstream %d" % a), st.poll(pg), st.ev("sweep")
        out.append(case("manyreads-%d-%d" % (L, piece), st.script(), ["manyreads"]))
    # long inbound packets arriving one byte per transport event: only the wakeups of the transport drive the client
    for L in (130, 200, 700, 1300):
        st = S()
        a = st.sub(b"a")
        st.poll(a), st.deliver(M.suback(1)), st.poll(a), st.ev("tostream %d" % a)
        pk = M.publish(b"a", bytes((i * 3) % 251 for i in range(L)), 1, 9, ps=[(11, 1)]) + M.pingresp()
        pg = st.ping()
        st.poll(pg)
        for bt in pk:
            st.ev("deliver %02x" % bt)
        st.ev("pollstream %d" % a), st.poll(pg), st.ev("sweep")
        out.append(case("bytewise-%d" % L, st.script(), ["bytewise"]))
    for k in range(n_cases(tier, 150, 3000)):
        c = walk(rng, rng.choice([20, 40]) if tier == "quick" else rng.choice([40, 150]),
                 {"spurious": True, "streams": True, "drops": k % 4 == 0, "hold": k % 3 == 0, "fail": 0.2,
                  "inbound": True}, "walk%d" % k)
        evs = c["script"].split(" ; ")
        mode = k % 4
        new = []
        if mode in (1, 3):
            new.append("wmode %d %s" % (rng.choice([0, 2, 3]), " ".join(str(rng.randint(1, 5)) for _ in range(3))))
        for e in evs:
            if e.startswith("deliver ") and mode in (2, 3) and "hold" not in c["script"]:
                b = M.unhex(e[8:])
                cuts = [b[i:i + 1] for i in range(len(b))] if len(b) < 40 else [b[:1], b[1:2], b[2:7], b[7:]]
                for x in cuts:
                    if x:
                        new.append("deliver " + hx(x))
                        if rng.random() < 0.2:
                            new.append("sweep")
            else:
                new.append(e)
            if rng.random() < 0.15:
                new.append("sweep")
        if mode in (1, 3):
            new.insert(0, new.pop(0))
        # wmode must come first so that CONNECT is written under it
        script = " ; ".join(new)
        out.append(case("walk%d-m%d" % (k, mode), script, c["tags"] + ["mode%d" % mode]))
    return out + r6("C16") + r7("C16") + r8("C16") + r9("C16")


# ---- C17 ------------------------------------------------------------------------------------------
@generator("C17", "Disconnection injected (hook verif_mark_disconnected) after every prefix of bounded histories of "
           "QoS 1/2 publishes and acknowledgements x session expiry in {0, finite, never} x elapsed before / "
           "after expiry; the resumed connection then acknowledges and the original futures are polled.",
           ["time since disconnection is kept far from the expiry boundary (no wall-clock race)"])
def c17(tier, rng):
    out = []

    def hist(upto):
        s = S(connect_opts="sei=%d")
        a, b, c3 = s.pub(q=1, payload=b"A"), s.pub(q=2, payload=b"B"), s.pub(q=2, payload=b"C")
        d = s.pub(q=0, payload=b"D")
        steps = [lambda: s.poll(a), lambda: s.poll(b), lambda: s.poll(c3), lambda: s.poll(d),
                 lambda: s.deliver(M.pubrec(2)), lambda: s.poll(b), lambda: s.deliver(M.puback(1)),
                 lambda: s.poll(a), lambda: s.deliver(M.pubrec(3, 128)), lambda: s.poll(c3),
                 lambda: s.deliver(M.pubcomp(2)), lambda: s.poll(b)]
        for k in range(upto):
            steps[k]()
        return s, (a, b, c3, d), len(steps)
    _, _, nsteps = hist(0)
    for upto in range(nsteps + 1):
        for sei, elapsed, label in ((0, 5, "sei0"), (1000, 10, "fresh"), (100, 5000, "elapsed"),
                                    (4294967295, 100000, "never")):
            s, ops, _ = hist(upto)
            s.evs[0] = "connect sei=%d" % sei if sei else "connect"
            s.ev("markdisc %d" % elapsed)
            s.ev("reconnect")
            s.ev("connect sei=%d" % sei if sei else "connect")
            s.deliver(M.connack(1))
            # new traffic queued before run(): must come after the re-sent packets
            n = s.pub(q=1, payload=b"N")
            s.poll(n)
            s.ev("run")
            for i in ops:
                s.poll(i)
            # the broker answers on the new connection
            s.deliver(M.puback(1)), s.deliver(M.pubrec(2)), s.deliver(M.pubrec(3))
            for i in ops:
                s.poll(i)
            s.deliver(M.pubcomp(2)), s.deliver(M.pubcomp(3))
            for i in ops:
                s.poll(i)
            out.append(case("p%d-%s" % (upto, label), s.script(), [label, "prefix%d" % upto]))
    # requests that are not re-sent (SUBSCRIBE, PINGREQ, UNSUBSCRIBE) pending among the publishes: the retransmit queue
    # and the queue of awaited acknowledgements do not line up
    def resume(s, sei):
        s.ev("reconnect")
        s.ev("connect sei=%d" % sei)
        s.deliver(M.connack(1))
        s.ev("run")
    for variant in range(6):
        for label, sei, elapsed in (("fresh", 1000, 10), ("never", 4294967295, 99999)):
            s = S(connect_opts="sei=%d" % sei)
            pre = [s.sub(b"x"), s.ping()][: 1 + variant % 2] if variant < 4 else [s.unsub(b"u"), s.sub(b"y"), s.ping()]
            for i in pre:
                s.poll(i)
            a, b, c3 = s.pub(q=1, payload=b"A"), s.pub(q=2, payload=b"B"), s.pub(q=1, payload=b"C")
            for i in (a, b, c3):
                s.poll(i)
            pa, pb, pc = s.ops[a]["pid"], s.ops[b]["pid"], s.ops[c3]["pid"]
            if variant % 3 == 0:
                s.deliver(M.puback(pa)), s.poll(a)
            elif variant % 3 == 1:
                s.deliver(M.pubrec(pb)), s.poll(b)
            else:
                s.deliver(M.puback(pc)), s.poll(c3), s.deliver(M.pubrec(pb)), s.poll(b), s.deliver(M.pubcomp(pb)), s.poll(b)
            s.ev("markdisc %d" % elapsed)
            resume(s, sei)
            for i in (a, b, c3):
                s.poll(i)
            if variant >= 3:
                # the connection is lost again before anything is acknowledged: everything is re-sent once more
                s.ev("markdisc %d" % elapsed)
                resume(s, sei)
            s.deliver(M.puback(pa)), s.deliver(M.pubrec(pb)), s.deliver(M.puback(pc))
            for i in (a, b, c3):
                s.poll(i)
            s.deliver(M.pubcomp(pb))
            for i in (a, b, c3):
                s.poll(i)
            out.append(case("mixed%d-%s" % (variant, label), s.script(), [label, "mixed", "twice" if variant >= 3 else "once"]))
    for sei1, sei2, label in ((1000, None, "finite-then-omitted"), (4294967295, None, "never-then-omitted"), (None, 1000, "omitted-then-finite"),
                              (1000, 0, "finite-then-zero"), (5, 100000, "short-then-long")):
        s = S(connect_opts=("sei=%d" % sei1) if sei1 is not None else "")
        a, b = s.pub(q=1, payload=b"A"), s.pub(q=2, payload=b"B")
        s.poll(a), s.poll(b), s.deliver(M.pubrec(2)), s.poll(b)
        s.ev("markdisc 50"), s.ev("reconnect")
        s.ev(("connect sei=%d" % sei2) if sei2 is not None else "connect")
        s.deliver(M.connack(1)), s.ev("run")
        s.poll(a), s.poll(b)
        s.deliver(M.puback(1)), s.deliver(M.pubcomp(2)), s.poll(a), s.poll(b)
        out.append(case("expiry-%s" % label, s.script(), ["expiry-change"]))
    for variant in range(4):
        s = S(connect_opts="sei=1000")
        a, b, c3 = s.pub(q=1, payload=b"A"), s.pub(q=2, payload=b"B"), s.pub(q=1, payload=b"C")
        for i in (a, b, c3):
            s.poll(i)
        s.deliver(M.pubrec(2)), s.poll(b)
        s.ev("markdisc 10"), resume(s, 1000)
        # acknowledgements arrive on the resumed connection, nothing new is in flight
        if variant in (0, 2):
            s.deliver(M.puback(1)), s.poll(a)
        if variant in (1, 2):
            s.deliver(M.pubcomp(2)), s.poll(b)
        if variant == 3:
            s.deliver(M.puback(3)), s.poll(c3), s.deliver(M.puback(1)), s.poll(a)
        s.ev("markdisc 10"), resume(s, 1000)
        for i in (a, b, c3):
            s.poll(i)
        s.deliver(M.puback(1)), s.deliver(M.pubcomp(2)), s.deliver(M.puback(3))
        for i in (a, b, c3):
            s.poll(i)
        out.append(case("ack-between-resumes-%d" % variant, s.script(), ["twice", "acked-between"]))
    # an acknowledged publish whose future had been dropped (other requests in between) is not re-sent; the others are
    for q in (1, 2):
        for between in ("ping", "pub0", "pub1", "none"):
            s = S(connect_opts="sei=1000")
            a, b = s.pub(q=q, payload=b"A"), s.pub(q=1, payload=b"B")
            s.poll(a), s.poll(b)
            s.ev("dropop %d" % a)
            if between != "none":
                x = s.ping() if between == "ping" else s.pub(q=0 if between == "pub0" else 1, payload=b"X")
                s.poll(x)
            pa, pb = s.ops[a]["pid"], s.ops[b]["pid"]
            if q == 1:
                s.deliver(M.puback(pa))
            else:
                s.deliver(M.pubrec(pa, 145))                  # refused: the exchange is over
            s.ev("markdisc 10"), resume(s, 1000)
            s.poll(b)
            s.deliver(M.puback(pb)), s.poll(b)
            out.append(case("dropped-acked-q%d-%s" % (q, between), s.script(), ["dropped", "acked"]))
    # re-connection through enhanced authentication (CONNECT, AUTH, authorize(), CONNACK): the interval in force is the
    # one of THIS connection's CONNECT
    for sei1, sei2, elapsed, label in ((3600, 3600, 1, "auth-both-live"), (3600, 0, 1, "plain-then-auth-zero"), (0, 3600, 1, "zero-then-auth-live"),
                                       (3600, 5, 50, "auth-elapsed")):
        for first_auth in (False, True):
            s = S(connect_opts=("sei=%d" % sei1) if sei1 else "", via_auth=first_auth)
            a, b = s.pub(q=1, payload=b"A"), s.pub(q=2, payload=b"B")
            s.poll(a), s.poll(b), s.deliver(M.pubrec(s.ops[b]["pid"])), s.poll(b)
            s.ev("markdisc %d" % elapsed), s.ev("reconnect")
            s.ev(("connect am=6d ad=01 " + (("sei=%d" % sei2) if sei2 else "")).strip())
            s.ev("deliver " + hx(M.auth(24, [(21, b"m"), (22, b"\x07")])))
            s.ev("auth r=24 am=6d ad=02")
            s.deliver(M.connack(1)), s.ev("run")
            s.poll(a), s.poll(b)
            s.deliver(M.puback(s.ops[a]["pid"])), s.deliver(M.pubcomp(s.ops[b]["pid"])), s.poll(a), s.poll(b)
            out.append(case("%s%s" % (label, "-authfirst" if first_auth else ""), s.script(), ["via-auth", "expiry-change"]))
    for q in (1, 2):
        for ret in (0, 1):
            s = S(connect_opts="sei=1000")
            a = s.pub(q=q, payload=b"kept", extra="ret=%d" % ret)
            b2 = s.pub(q=2, payload=b"B", extra="ret=%d" % (1 - ret))
            s.poll(a), s.poll(b2)
            s.ev("markdisc 10"), resume(s, 1000)
            s.poll(a), s.poll(b2)
            out.append(case("retained-q%d-ret%d" % (q, ret), s.script(), ["retain"]))
    for how in ("userdisc", "srvdisc", "eof"):
        s = S(connect_opts="sei=1000")
        a, b2 = s.pub(q=1, payload=b"A"), s.pub(q=2, payload=b"B")
        s.poll(a), s.poll(b2), s.deliver(M.pubrec(s.ops[b2]["pid"])), s.poll(b2)
        if how == "userdisc":
            d = s.disc()
            s.poll(d), s.poll(d)
        elif how == "srvdisc":
            s.deliver(M.disconnect(139))
        else:
            s.ev("eof")
        s.ev("markdisc 10"), resume(s, 1000)
        s.poll(a), s.poll(b2)
        s.deliver(M.puback(s.ops[a]["pid"])), s.deliver(M.pubcomp(s.ops[b2]["pid"])), s.poll(a), s.poll(b2)
        out.append(case("resume-after-%s" % how, s.script(), ["ended-by", how]))
    for budget in (0, 5, 9, 12):
        s = S(connect_opts="sei=1000")
        a, b2, c3 = s.pub(q=1, payload=b"A"), s.pub(q=2, payload=b"B"), s.pub(q=1, payload=b"C")
        for i in (a, b2, c3):
            s.poll(i)
        s.deliver(M.pubrec(s.ops[b2]["pid"])), s.poll(b2)
        s.ev("markdisc 10"), s.ev("reconnect"), s.ev("connect sei=1000"), s.deliver(M.connack(1))
        s.ev("werr %d" % budget), s.ev("run")                 # the resumption breaks off after `budget` bytes
        s.ev("markdisc 10"), resume(s, 1000)
        for i in (a, b2, c3):
            s.poll(i)
        s.deliver(M.puback(s.ops[a]["pid"])), s.deliver(M.pubcomp(s.ops[b2]["pid"])), s.deliver(M.puback(s.ops[c3]["pid"]))
        for i in (a, b2, c3):
            s.poll(i)
        out.append(case("interrupted-resume-%d" % budget, s.script(), ["interrupted"]))
    for rm2 in (1, 2, 3):
        s = S(connect_opts="sei=1000", connack_props=[(33, 4)])
        a, b2, c3 = s.pub(q=1, payload=b"A"), s.pub(q=2, payload=b"B"), s.pub(q=1, payload=b"C")
        for i in (a, b2, c3):
            s.poll(i)
        s.deliver(M.pubrec(s.ops[b2]["pid"])), s.poll(b2)
        s.ev("markdisc 10"), s.ev("reconnect"), s.ev("connect sei=1000"), s.deliver(M.connack(1, 0, [(33, rm2)])), s.ev("run")
        for i in (a, b2, c3):
            s.poll(i)
        out.append(case("resume-under-R%d" % rm2, s.script(), ["resume-rm"]))
    return out + r6("C17") + r7("C17") + r8("C17") + r9("C17")


# ---- round 6 --------------------------------------------------------------------------------------------------------------
UPDUP = [(38, (b"acl", b"deny")), (38, (b"node", b"7")), (38, (b"acl", b"deny")), (38, (b"acl", b"allow")), (38, (b"node", b"7"))]
PUBREC_FAIL = [128, 131, 135, 144, 145, 151, 153]


def r6(pid):
    out = []
    if pid == "C05":
        # acknowledgements carrying the same name-value pair twice and a name repeated around another one, out of order,
        # each reaching its own operation with all of it
        st = S()
        a, b_, c_, d_ = st.sub(b"f", extra="f=67:0100"), st.unsub(b"u"), st.pub(q=1), st.pub(q=2)
        for i in (a, b_, c_, d_):
            st.poll(i)
        st.deliver(M.pubrec(st.ops[d_]["pid"], 145, UPDUP + [(31, b"d")], "long")), st.deliver(M.unsuback(st.ops[b_]["pid"], [17], UPDUP[:3]))
        st.deliver(M.puback(st.ops[c_]["pid"], 135, UPDUP[1:] + [(31, b"c")], "long")), st.deliver(M.suback(st.ops[a]["pid"], [1, 128], UPDUP))
        for i in (a, b_, c_, d_):
            st.poll(i)
        out.append(case("repeated-user-properties-out-of-order", st.script(), ["upsx"]))
        # every failing PUBREC reason, three QoS 2 publishes from clones, the middle one refused
        for r in PUBREC_FAIL + [0, 16]:
            st = S()
            st.ev("clone 0 1"), st.ev("clone 0 2")
            x = [st.pub(q=2, payload=b"m%d" % k, handle=k) for k in range(3)]
            for i in x:
                st.poll(i)
            st.deliver(M.pubrec(2, r, [(31, b"why")] if r >= 128 else (), "long" if r >= 128 else "auto"))
            for i in x:
                st.poll(i)
            st.deliver(M.pubrec(1)), st.deliver(M.pubrec(3)), [st.poll(i) for i in x]
            st.deliver(M.pubcomp(3)), st.deliver(M.pubcomp(1)), st.deliver(M.pubcomp(2, 146) if r < 128 else M.pingresp())
            [st.poll(i) for i in x]
            out.append(case("pubrec-sweep-middle-%d" % r, st.script(), ["pubrec-sweep"]))
    if pid == "C06":
        # a publish abandoned at each point of its handshake; the late acknowledgement arrives; the others go on
        for q, point in ((1, "wait"), (2, "wait1"), (2, "wait2")):
            for r in (0, 135):
                st = S()
                sib1, x, sib2 = st.pub(q=1, payload=b"s1"), st.pub(q=q, payload=b"gone"), st.pub(q=2, payload=b"s2")
                for i in (sib1, x, sib2):
                    st.poll(i)
                px = st.ops[x]["pid"]
                if point == "wait2":
                    st.deliver(M.pubrec(px)), st.poll(x)
                st.ev("dropop %d" % x)
                if q == 1:
                    st.deliver(M.puback(px, r))
                elif point == "wait1":
                    st.deliver(M.pubrec(px, r))
                else:
                    st.deliver(M.pubcomp(px, 146 if r else 0))
                st.deliver(M.puback(st.ops[sib1]["pid"], 16)), st.deliver(M.pubrec(st.ops[sib2]["pid"]))
                st.poll(sib1), st.poll(sib2), st.deliver(M.pubcomp(st.ops[sib2]["pid"])), st.poll(sib2)
                y = st.pub(q=1, payload=b"later")
                st.poll(y), st.deliver(M.puback(st.ops[y]["pid"])), st.poll(y)
                out.append(case("abandoned-q%d-%s-r%d" % (q, point, r), st.script(), ["abandoned"]))
        for r in PUBREC_FAIL:
            for form in ("auto", "long"):
                st = S()
                x = st.pub(q=2, payload=b"refused")
                st.poll(x), st.deliver(M.pubrec(1, r, [(31, b"no")] if form == "long" else (), form)), st.poll(x), st.poll(x)
                y = st.pub(q=2, payload=b"next")
                st.poll(y), st.deliver(M.pubrec(2)), st.poll(y), st.deliver(M.pubcomp(2)), st.poll(y)
                out.append(case("failing-pubrec-%d-%s" % (r, form), st.script(), ["pubrec-sweep"]))
    if pid == "C08":
        # one poll_write failing with ErrorKind::Interrupted after the transport accepted k bytes of what is owed: run() ends
        # (write_all does not retry) or carries on - never a byte twice
        for what, pk in (("puback", M.publish(b"t", b"x", 1, 5)), ("pubrec", M.publish(b"t", b"y", 2, 6)), ("pubcomp", M.pubrel(7))):
            for k in range(0, 5):
                st = S()
                st.ev("wintr %d" % k), st.deliver(pk), st.deliver(M.publish(b"t", b"z", 1, 9)), st.deliver(M.pingresp())
                out.append(case("wintr-%s-%d" % (what, k), st.script(), ["wintr"]))
        st = S()
        st.deliver(M.publish(b"t", b"a", 1, 1)), st.ev("wintr 6"), st.deliver(M.publish(b"t", b"b", 1, 2) + M.publish(b"t", b"c", 2, 3) + M.pubrel(3))
        out.append(case("wintr-second-ack", st.script(), ["wintr"]))
        # PUBREL for identifiers that are not (or no longer) recorded, several in a row, acknowledgements owed after them
        st = S()
        st.deliver(M.pubrel(7)), st.deliver(M.publish(b"t", b"q2", 2, 8)), st.deliver(M.pubrel(8)), st.deliver(M.pubrel(8)), st.deliver(M.pubrel(8, 146, (), "short3"))
        st.deliver(M.publish(b"t", b"q1", 1, 9)), st.deliver(M.pubrel(1) + M.publish(b"t", b"q2b", 2, 8) + M.pubrel(8))
        out.append(case("pubrel-unknown-identifiers", st.script(), ["pubrel-unknown"]))
    if pid in ("C09", "C07"):
        # the two directions number their exchanges independently: the client's own QoS 2 publish completing under the number
        # an inbound exchange is using changes nothing for the inbound one
        for when in ("before-pubrec-out", "after-pubcomp-out"):
            st = S()
            a = st.sub(b"a")
            st.poll(a), st.deliver(M.suback(1)), st.poll(a), st.ev("tostream %d" % a)
            o = st.pub(q=2, payload=b"outbound")          # packet identifier 2
            st.poll(o)
            st.deliver(M.publish(b"a", b"m1", 2, 2, ps=[(11, 1)]))          # inbound identifier 2 as well
            st.deliver(M.pubrec(2)), st.poll(o)
            if when == "after-pubcomp-out":
                st.deliver(M.pubcomp(2)), st.poll(o)
            st.deliver(M.publish(b"a", b"m1", 2, 2, 1, ps=[(11, 1)]))       # re-delivery
            if when != "after-pubcomp-out":
                st.deliver(M.pubcomp(2)), st.poll(o)
                st.deliver(M.publish(b"a", b"m1", 2, 2, 1, ps=[(11, 1)]))
            st.deliver(M.pubrel(2)), st.deliver(M.publish(b"a", b"m2", 2, 2, ps=[(11, 1)])), st.deliver(M.pubrel(2))
            for _ in range(4):
                st.ev("pollstream %d" % a)
            out.append(case("crossed-identifiers-%s" % when, st.script(), ["crossed"]))
        # after a re-delivery the broker goes on as the standard says: PUBREL, and the identifier is used for a new message
        st = S()
        a = st.sub(b"a")
        st.poll(a), st.deliver(M.suback(1)), st.poll(a), st.ev("tostream %d" % a)
        st.deliver(M.publish(b"a", b"first", 2, 5, ps=[(11, 1)])), st.deliver(M.publish(b"a", b"first", 2, 5, 1, ps=[(11, 1)]))
        st.deliver(M.pubrel(5)), st.deliver(M.publish(b"a", b"second", 2, 5, ps=[(11, 1)])), st.deliver(M.pubrel(5))
        for _ in range(3):
            st.ev("pollstream %d" % a)
        out.append(case("redelivery-then-release-then-reuse", st.script(), ["crossed"]))
    if pid == "C10":
        # what the CLIENT announces as its own Receive Maximum concerns inbound traffic only
        for own, srv in ((1, None), (2, 5), (3, 3), (10, 2), (1, 65535)):
            st = S(connack_props=[(33, srv)] if srv else (), connect_opts="rm=%d" % own)
            R = srv or 65535
            n = min(R, 7) + 1
            x = [st.pub(q=1 + k % 2, payload=b"w%d" % k) for k in range(n)]
            for i in x:
                st.poll(i)
            for i in x:
                st.poll(i)
            for i in x[:2]:
                if st.ops[i]["pid"] and st.ops[i]["state"] != "refused":
                    st.deliver(M.puback(st.ops[i]["pid"]) if st.ops[i]["q"] == 1 else M.pubrec(st.ops[i]["pid"], 151)), st.poll(i), st.freed()
            y = [st.pub(q=1, payload=b"again%d" % k) for k in range(3)]
            for i in y:
                st.poll(i), st.poll(i)
            out.append(case("own-receive-maximum-%d-server-%s" % (own, srv), st.script(), ["own-rm"]))
        for r in PUBREC_FAIL:
            for R in (1, 2):
                st = S(connack_props=[(33, R)])
                x = [st.pub(q=2, payload=b"w%d" % k) for k in range(R + 1)]
                for i in x:
                    st.poll(i), st.poll(i)
                st.deliver(M.pubrec(1, r)), st.freed()            # not polled: the context alone releases the slot
                y = st.pub(q=1, payload=b"after")
                st.poll(y), st.poll(y)
                z = st.pub(q=1, payload=b"beyond")
                st.poll(z), st.poll(z), st.poll(x[0])
                out.append(case("failing-pubrec-releases-%d-R%d" % (r, R), st.script(), ["pubrec-sweep"]))
    if pid == "C11":
        # publishes that carry no identifier use none up: three operations outstanding while 70000 QoS 0 publishes and 15020
        # identifier-consuming operations go by
        st = S()
        keep = [st.pub(q=1, payload=b"keep"), st.sub(b"keep"), st.unsub(b"keep")]
        for i in keep:
            st.poll(i)
        st.ev("pub0s 35000"), st.ev("spin 15000 200000 pub1 1"), st.ev("pub0s 15530"), st.ev("spin 10 400000 unsub 1"), st.ev("pub0s 19470"), st.ev("spin 10 500000 pub2 1")
        st.pid_ctr = 4 + 15020
        z = st.pub(q=1, payload=b"z")
        st.poll(z)
        out.append(case("qos0-uses-no-identifier", st.script(), ["qos0-ids"], release=False))
        # an operation refused locally has used its identifier up: nobody else gets it while others hold theirs
        st = S(connack_props=[(33, 1)])
        st.ev("clone 0 1"), st.ev("clone 0 2")
        a = st.pub(q=1, payload=b"A")
        st.poll(a)
        c_, d_ = st.pub(q=1, payload=b"C", handle=1), st.sub(b"d", handle=2)
        st.poll(c_), st.poll(d_), st.poll(c_), st.poll(c_)
        e_ = st.unsub(b"e")
        st.poll(e_)
        f_ = st.pub(q=2, payload=b"F", handle=1)
        st.poll(f_), st.poll(f_)
        g_ = st.sub(b"g")
        st.poll(g_)
        out.append(case("refused-publish-keeps-its-identifier", st.script(), ["refused-ids"]))
    if pid == "C12":
        # the limit the CLIENT announces for what it is willing to receive never limits what it sends
        for own in (20, 32, 100):
            for srv in (None, 200):
                st = S(connack_props=[(39, srv)] if srv else (), connect_opts="mps=%d" % own)
                x = [st.pub(q=0, topic=b"t" * 40, payload=b"p" * 60), st.pub(q=1, topic=b"t" * 40, payload=b"p" * 60), st.sub(b"f" * 100),
                     st.unsub(b"u" * 100), st.pub(q=2, topic=b"t" * 10, payload=b"p" * 250)]
                for i in x:
                    st.poll(i), st.poll(i)
                d_ = st.disc("r=0 rs=%s" % hx(b"r" * 100))
                st.poll(d_), st.poll(d_)
                out.append(case("own-maximum-packet-size-%d-server-%s" % (own, srv), st.script(), ["own-mps"]))
        # too big AND no quota left: too big (it can never be sent on this connection)
        for q in (1, 2):
            st = S(connack_props=[(39, 40), (33, 1)])
            a = st.pub(q=q, payload=b"fits")
            st.poll(a)
            big = st.pub(q=q, topic=b"t", payload=b"p" * 60)
            st.poll(big), st.poll(big)
            exact = st.pub(q=q, topic=b"t", payload=b"p" * (40 - 9))
            st.poll(exact), st.poll(exact)
            st.deliver(M.puback(1) if q == 1 else M.pubrec(1, 128)), st.poll(a), st.freed()
            big2 = st.pub(q=q, topic=b"t", payload=b"p" * 60)
            st.poll(big2), st.poll(big2)
            ok = st.pub(q=q, topic=b"t", payload=b"p" * (40 - 9))
            st.poll(ok), st.poll(ok)
            out.append(case("too-big-and-no-quota-q%d" % q, st.script(), ["size-vs-quota"]))
    if pid == "C13":
        # the library does not close the transport; whatever poll_close would do is irrelevant to run()
        for cf in (1, 2):
            for state in ("idle", "busy"):
                st = S()
                st.ev("cfault %d" % cf)
                if state == "busy":
                    a = st.pub(q=2)
                    st.poll(a)
                d_ = st.disc("r=4")
                st.poll(d_), st.poll(d_)
                out.append(case("userdisc-closefault-%d-%s" % (cf, state), st.script(), ["close-fault"]))
        # a re-delivered QoS 2 PUBLISH is no reason to return
        for n_ in (1, 3):
            st = S()
            a = st.sub(b"a")
            st.poll(a), st.deliver(M.suback(1)), st.poll(a), st.ev("tostream %d" % a)
            st.deliver(M.publish(b"a", b"m", 2, 7, ps=[(11, 1)]))
            for _ in range(n_):
                st.deliver(M.publish(b"a", b"m", 2, 7, 1, ps=[(11, 1)]))
            g = st.ping()
            st.poll(g), st.deliver(M.pingresp()), st.poll(g), st.deliver(M.pubrel(7)), st.ev("pollstream %d" % a), st.ev("pollstream %d" % a)
            st.deliver(M.disconnect(139, [(31, b"bye")], "long"))
            out.append(case("srvdisc-redelivered%d-r139" % n_, st.script(), ["redelivery"]))
    if pid == "C14":
        # every operation kind in every phase when the Context goes, and every kind started afterwards (disconnect included)
        st = S()
        a = st.sub(b"a")
        st.poll(a), st.deliver(M.suback(1)), st.poll(a), st.ev("tostream %d" % a)
        p2 = st.pub(q=2, payload=b"past-pubrec")
        st.poll(p2), st.deliver(M.pubrec(st.ops[p2]["pid"])), st.poll(p2)
        p2b = st.pub(q=2, payload=b"pubrec-unseen")
        st.poll(p2b), st.deliver(M.pubrec(st.ops[p2b]["pid"]))
        st.deliver(M.publish(b"a", b"acknowledged-not-released", 2, 9, ps=[(11, 1)]))
        st.ev("dropctx")
        for i in (p2, p2b):
            st.poll(i), st.poll(i)
        for _ in range(3):
            st.ev("pollstream %d" % a)
        later = [st.disc("r=0"), st.ping(), st.pub(q=0), st.pub(q=1), st.pub(q=2), st.sub(b"z"), st.unsub(b"z"), st.disc("r=4")]
        for i in later:
            st.poll(i), st.poll(i)
        out.append(case("dropctx-mid-qos2-both-directions", st.script(), ["dropctx6"]))
        st = S()
        st.ev("clone 0 1")
        st.deliver(M.disconnect(139)), st.ev("dropctx")
        for h in (0, 1):
            d_ = st.disc("r=0", handle=h)
            st.poll(d_), st.poll(d_)
        out.append(case("disconnect-after-context-gone", st.script(), ["dropctx6"]))
    if pid == "C15":
        # pings: the PINGRESP owed to an abandoned ping is not the answer to a later one
        for n_drop in (1, 2):
            st = S()
            st.ev("clone 0 1")
            gone = [st.ping() for _ in range(n_drop)]
            for i in gone:
                st.poll(i)
            live = [st.ping(handle=1), st.ping()]
            for i in live:
                st.poll(i)
            for i in gone:
                st.ev("dropop %d" % i)
            for k in range(n_drop):
                st.deliver(M.pingresp())
                for i in live:
                    st.poll(i)
            st.deliver(M.pingresp()), [st.poll(i) for i in live], st.deliver(M.pingresp()), [st.poll(i) for i in live]
            out.append(case("abandoned-ping-%d" % n_drop, st.script(), ["abandoned", "ping"]))
        # a QoS 2 publish abandoned before its PUBREC: whatever the PUBREC says, nothing goes out for it
        for r in (128, 145, 151):
            st = S(connack_props=[(33, 2)])
            other = st.pub(q=1, payload=b"other")
            st.poll(other)
            x = st.pub(q=2, payload=b"gone")
            st.poll(x), st.ev("dropop %d" % x)
            st.deliver(M.pubrec(2, r)), st.freed()
            y = [st.pub(q=1, payload=b"y%d" % k) for k in range(2)]
            for i in y:
                st.poll(i), st.poll(i)
            st.deliver(M.puback(1)), st.poll(other)
            out.append(case("abandoned-qos2-pubrec-%d" % r, st.script(), ["abandoned", "pubrec"]))
    if pid == "C16":
        # operations outstanding when run() returns: whoever polls them, whenever, sees the same
        for cause in ("eof", "disconnect", "user"):
            for npings in (1, 2):
                for extra in ("none", "sweep", "fpoll-first", "fpoll-before"):
                    st = S()
                    st.ev("clone 0 1")
                    pg = [st.ping(handle=k % 2) for k in range(npings)]
                    pb = st.pub(q=1)
                    for i in pg + [pb]:
                        st.poll(i)
                    if extra == "fpoll-before":
                        st.ev("fpoll %d" % pg[0])
                    if cause == "eof":
                        st.ev("eof")
                    elif cause == "disconnect":
                        st.deliver(M.disconnect(139))
                    else:
                        d_ = st.disc("r=0", handle=1)
                        st.poll(d_), st.poll(d_)
                    if extra == "sweep":
                        st.ev("sweep")
                    if extra == "fpoll-first":
                        st.ev("fpoll %d" % pg[0])
                    for i in pg + [pb]:
                        st.poll(i)
                    st.ev("sweep")
                    out.append(case("outstanding-at-exit-%s-%d-%s" % (cause, npings, extra), st.script(), ["at-exit"]))
    if pid == "C17":
        # Session Expiry Intervals of months and years, disconnections of weeks
        DAY = 86400
        for sei, elapsed, label in ((60 * DAY, 55 * DAY, "60d-55d"), (365 * DAY, 61 * DAY, "1y-61d"), (4294967294, 400 * DAY, "max-400d"),
                                    (60 * DAY, 60 * DAY + 1, "60d-over"), (4294967, 4294966, "49d-under"), (4294968, 4294967, "49d-edge"),
                                    (4294968, 4294969, "49d-over"), (50 * DAY, 49 * DAY + 61000, "50d-49.7d")):
            st = S(connect_opts="sei=%d" % sei)
            a, b_ = st.pub(q=1, payload=b"A"), st.pub(q=2, payload=b"B")
            st.poll(a), st.poll(b_), st.deliver(M.pubrec(2)), st.poll(b_)
            st.ev("markdisc %d" % elapsed), st.ev("reconnect"), st.ev("connect sei=%d" % sei), st.deliver(M.connack(1)), st.ev("run")
            st.poll(a), st.poll(b_), st.deliver(M.puback(1)), st.deliver(M.pubcomp(2)), st.poll(a), st.poll(b_)
            out.append(case("long-session-%s" % label, st.script(), ["long-session"]))
        # an expired resumption is over when run() has dealt with it: calling run() again on the new connection is harmless
        for sei in (0, 100):
            st = S(connect_opts=("sei=%d" % sei) if sei else "")
            a = st.pub(q=1, payload=b"old")
            st.poll(a)
            st.ev("markdisc 5000"), st.ev("reconnect"), st.ev(("connect sei=1000")), st.deliver(M.connack(0)), st.ev("run")
            st.poll(a)
            b_, c_ = st.pub(q=1, payload=b"new1"), st.pub(q=2, payload=b"new2")
            st.poll(b_), st.poll(c_), st.deliver(M.pubrec(st.ops[c_]["pid"])), st.poll(c_)
            st.ev("run")
            st.poll(b_), st.poll(c_), st.deliver(M.pingresp()), st.ev("run")
            st.ev("markdisc 10"), st.ev("reconnect"), st.ev("connect sei=1000"), st.deliver(M.connack(1)), st.ev("run")
            st.deliver(M.puback(st.ops[b_]["pid"])), st.deliver(M.pubcomp(st.ops[c_]["pid"])), st.poll(b_), st.poll(c_)
            out.append(case("expired-then-run-again-%d" % sei, st.script(), ["run-again-expired"]))
    return out


# ---- round 7 --------------------------------------------------------------------------------------------------------------
def r7(pid):
    out = []
    if pid in ("C05", "C10"):
        # a publish refused for want of quota leaves no trace on the wire; the acknowledgements that follow belong to the others
        for R in (1, 2):
            st = S(connack_props=[(33, R)])
            st.ev("clone 0 1")
            x = [st.pub(q=1 + k % 2, payload=b"w%d" % k, handle=k % 2) for k in range(R)]
            for i in x:
                st.poll(i)
            extra = [st.pub(q=1, payload=b"refused-1"), st.sub(b"s"), st.ping(), st.pub(q=2, payload=b"refused-2", handle=1), st.unsub(b"u")]
            for i in extra:
                st.poll(i), st.poll(i)
            st.deliver(M.suback(st.ops[extra[1]]["pid"])), st.deliver(M.pingresp()), st.deliver(M.unsuback(st.ops[extra[4]]["pid"]))
            for i in x:
                st.deliver(M.puback(st.ops[i]["pid"]) if st.ops[i]["q"] == 1 else M.pubrec(st.ops[i]["pid"], 135)), st.freed()
            for i in x + extra:
                st.poll(i)
            y = st.pub(q=1, payload=b"after")
            st.poll(y), st.deliver(M.puback(st.ops[y]["pid"])), st.poll(y)
            out.append(case("refused-for-quota-among-others-R%d" % R, st.script(), ["quota-silent"]))
    if pid in ("C05", "C06"):
        # acknowledgement keys: identifiers 256 and 65280 apart are different identifiers
        for q in (1, 2):
            for gap in (256, 512):
                st = S()
                slow = st.pub(q=q, payload=b"slow")
                st.poll(slow)
                st.ev("spin %d 1000 pub1 1" % (gap - 1))
                st.pid_ctr = 1 + gap
                late = st.pub(q=q, payload=b"late")
                st.poll(late)
                assert st.ops[late]["pid"] == st.ops[slow]["pid"] + gap
                st.deliver(M.puback(st.ops[late]["pid"], 151) if q == 1 else M.pubrec(st.ops[late]["pid"], 135))
                st.poll(slow), st.poll(late)
                st.deliver(M.puback(st.ops[slow]["pid"]) if q == 1 else M.pubrec(st.ops[slow]["pid"]))
                st.poll(slow), st.poll(late)
                if q == 2:
                    st.deliver(M.pubcomp(st.ops[slow]["pid"])), st.poll(slow)
                out.append(case("identifiers-%d-apart-q%d" % (gap, q), st.script(), ["ids-apart"]))
    if pid in ("C01", "C06"):
        # requests submitted while no connection is up wait in the queue: they go out, in order, once the next connection runs
        for where in ("before-reconnect", "before-connect"):
            st = S()
            a = st.pub(q=1, payload=b"first")
            st.poll(a), st.deliver(M.puback(1)), st.poll(a), st.ev("eof")
            if where == "before-connect":
                st.ev("reconnect")
            x = [st.pub(q=0, payload=b"queued-0"), st.pub(q=1, payload=b"queued-1"), st.ping()]
            for i in x:
                st.poll(i)
            if where == "before-reconnect":
                st.ev("reconnect")
            st.ev("connect"), st.deliver(M.connack()), st.ev("run")
            for i in x:
                st.poll(i)
            st.deliver(M.puback(st.ops[x[1]]["pid"])), st.deliver(M.pingresp())
            for i in x:
                st.poll(i)
            out.append(case("queued-%s" % where, st.script(), ["queued-across"]))
    if pid == "C07":
        # one subscribe() with several filters, some refused: the stream serves the granted ones
        for codes in ([135, 1], [0, 128], [2, 143, 0]):
            st = S()
            by = st.sub(b"bystander")
            st.poll(by), st.deliver(M.suback(st.ops[by]["pid"])), st.poll(by), st.ev("tostream %d" % by)
            a = st.sub(b"a", extra=" ".join("f=%s:0100" % hx(b"f%d" % k) for k in range(len(codes) - 1)))
            st.poll(a), st.deliver(M.publish(b"f0", b"overtakes", 0, None, ps=[(11, 2)]))
            st.deliver(M.suback(st.ops[a]["pid"], codes)), st.poll(a), st.ev("tostream %d" % a)
            st.deliver(M.publish(b"f0", b"m1", 1, 9, ps=[(11, 2)])), st.deliver(M.publish(b"bystander", b"b1", 0, None, ps=[(11, 1)]))
            st.deliver(M.publish(b"f1", b"m2", 2, 10, ps=[(11, 2)])), st.deliver(M.pubrel(10))
            for _ in range(4):
                st.ev("pollstream %d" % a)
            st.ev("pollstream %d" % by), st.ev("pollstream %d" % by)
            out.append(case("partly-refused-subscribe-%s" % "-".join(map(str, codes)), st.script(), ["partly-refused"]))
    if pid in ("C07", "C09"):
        # DUP=1 says "this may be a repetition", not "you have seen this": a QoS 2 PUBLISH with DUP=1 whose identifier is not
        # awaiting release is a new message (the first copy was lost with the previous connection)
        st = S(connect_opts="sei=1000")
        a = st.sub(b"a")
        st.poll(a), st.deliver(M.suback(1)), st.poll(a), st.ev("tostream %d" % a)
        st.deliver(M.publish(b"a", b"first", 2, 5, ps=[(11, 1)])), st.deliver(M.pubrel(5))
        st.deliver(M.publish(b"a", b"second", 2, 6, 1, ps=[(11, 1)])), st.deliver(M.publish(b"a", b"second", 2, 6, 1, ps=[(11, 1)])), st.deliver(M.pubrel(6))
        st.deliver(M.publish(b"a", b"third", 1, 7, 1, ps=[(11, 1)])), st.deliver(M.publish(b"a", b"fourth", 2, 6, 1, ps=[(11, 1)]))
        for _ in range(5):
            st.ev("pollstream %d" % a)
        out.append(case("dup-on-first-sight", st.script(), ["dup-first"]))
    if pid == "C08":
        # whatever legal text and properties the messages carry: a byte order mark at the start of a string, a user property
        # followed by binary data / large integers / long strings
        bom = "\ufeff".encode()
        upx = (38, (b"k", b"v"))
        st = S()
        st.deliver(M.publish(bom + b"topic", b"x", 1, 0x2600)), st.deliver(M.publish(b"t", b"x", 2, 7, ps=[(3, bom + b"text/plain"), (8, bom + b"reply")]))
        st.deliver(M.pubrel(7, 0, [(31, bom + b"done")], "long")), st.deliver(M.publish(b"t" + bom, b"y", 1, 8))
        out.append(case("byte-order-mark-in-strings", st.script(), ["texts"]))
        st = S()
        st.deliver(M.publish(b"t", b"\xff", 1, 1, ps=[upx, (9, b"\xde\xad\xbe\xef")])), st.deliver(M.publish(b"t", b"a", 2, 2, ps=[upx, (2, 86400)]))
        st.deliver(M.publish(b"t", b"b", 1, 3, ps=[upx, (11, 200)])), st.deliver(M.pubrel(2, 0, [upx, (31, b"r" * 130)], "long"))
        st.deliver(M.publish(b"t", b"c", 2, 4, ps=[upx, (8, b"r" * 200), upx])), st.deliver(M.pubrel(4, 146, [upx, (31, b"r" * 255), upx], "long"))
        st.deliver(M.publish(b"t", b"d", 1, 5))
        out.append(case("user-property-not-last", st.script(), ["texts"]))
    if pid == "C09":
        # a refused connection attempt in between changes nothing for the session the broker still holds
        for r in (137, 136):
            st = S(connect_opts="sei=1000")
            a = st.sub(b"a")
            st.poll(a), st.deliver(M.suback(1)), st.poll(a), st.ev("tostream %d" % a)
            st.deliver(M.publish(b"a", b"m1", 2, 5, ps=[(11, 1)])), st.ev("pollstream %d" % a)
            st.ev("markdisc 5"), st.ev("reconnect"), st.ev("connect sei=1000"), st.deliver(M.connack(0, r))
            st.ev("reconnect"), st.ev("connect sei=1000"), st.deliver(M.connack(1)), st.ev("run")
            st.deliver(M.publish(b"a", b"m1", 2, 5, 1, ps=[(11, 1)])), st.deliver(M.pubrel(5)), st.deliver(M.publish(b"a", b"m2", 2, 5, ps=[(11, 1)]))
            for _ in range(3):
                st.ev("pollstream %d" % a)
            out.append(case("refused-attempt-then-resume-%d" % r, st.script(), ["reconnect", "refused-attempt"]))
    if pid == "C10":
        # PUBREC 0x10 (no matching subscribers) is a success: the slot stays taken until the PUBCOMP
        for R in (1, 2):
            st = S(connack_props=[(33, R)])
            x = [st.pub(q=2, payload=b"w%d" % k) for k in range(R)]
            for i in x:
                st.poll(i)
            st.deliver(M.pubrec(1, 16)), st.poll(x[0])
            y = st.pub(q=1, payload=b"beyond")
            st.poll(y), st.poll(y)
            st.deliver(M.pubcomp(1)), st.poll(x[0]), st.freed()
            z = [st.pub(q=1, payload=b"z%d" % k) for k in range(2)]
            for i in z:
                st.poll(i), st.poll(i)
            out.append(case("pubrec-16-keeps-slot-R%d" % R, st.script(), ["pubrec16"]))
    if pid in ("C10", "C12"):
        # the CONNACK that ends an enhanced authentication exchange announces limits like any other
        for rounds in (1, 3):
            for Mx, R in ((40, 2), (None, 1)):
                cp = ([(39, Mx)] if Mx else []) + [(33, R)]
                evs = ["connect am=6d ad=01"]
                for k in range(rounds):
                    evs += ["deliver " + hx(M.auth(24, [(21, b"m"), (22, bytes([7 + k]))])), "auth r=24 am=6d ad=%02x" % (2 + k)]
                st = S(connack_props=cp)
                st.evs = evs + ["deliver " + hx(M.connack(ps=cp)), "run"]
                x = [st.pub(q=1, topic=b"t", payload=b"p" * (31 if Mx else 5)), st.pub(q=2, topic=b"t", payload=b"p" * (31 if Mx else 5)),
                     st.pub(q=1, topic=b"t", payload=b"p" * (32 if Mx else 6)), st.pub(q=0, topic=b"t", payload=b"p" * 60), st.pub(q=1, payload=b"x")]
                for i in x:
                    st.poll(i), st.poll(i)
                out.append(case("limits-after-%d-auth-rounds-M%s-R%d" % (rounds, Mx, R), st.script(), ["via-auth", "auth-limits"]))
        # second connection of the same Context, its CONNACK arriving through authorize() and announcing nothing
        st = S(connack_props=[(39, 30), (33, 1)])
        a = st.pub(q=1, topic=b"t", payload=b"p" * 40)
        st.poll(a), st.poll(a), st.ev("eof"), st.ev("reconnect")
        st.ev("connect am=6d ad=01"), st.deliver(M.auth(24, [(21, b"m")])), st.ev("auth r=24 am=6d ad=02"), st.deliver(M.connack()), st.ev("run")
        st.rmax, st.inflight = 65535, 0
        x = [st.pub(q=1, topic=b"t", payload=b"p" * 40), st.pub(q=2, topic=b"t", payload=b"p" * 40)]
        for i in x:
            st.poll(i), st.poll(i)
        out.append(case("limits-second-connection-through-authorize", st.script(), ["via-auth", "auth-limits", "reconnect"]))
    if pid == "C11":
        # which clones of the handle exist plays no part: 65535 handed out while a clone lives, the clone goes, the next ones follow
        st = S()
        st.ev("clone 0 1")
        keep = st.pub(q=1, payload=b"keep", handle=1)
        st.poll(keep)
        st.ev("spin 65533 1000 pub1 1")
        st.pid_ctr = 65535
        last = st.pub(q=1, payload=b"last-of-the-cycle")
        st.poll(last)
        st.deliver(M.puback(1)), st.poll(keep), st.deliver(M.puback(65535)), st.poll(last), st.ev("drophandle 1")
        # from here on handle 0 is the only one: its methods are called on it directly (startown), one operation at a time
        n0 = len(st.evs)
        b_ = st.sub(b"b")
        st.poll(b_), st.deliver(M.suback(st.ops[b_]["pid"])), st.poll(b_)
        c_ = st.unsub(b"c")
        st.poll(c_), st.deliver(M.unsuback(st.ops[c_]["pid"])), st.poll(c_)
        d_ = st.pub(q=1, payload=b"d")
        st.poll(d_), st.deliver(M.puback(st.ops[d_]["pid"])), st.poll(d_)
        st.evs[n0:] = [("startown " + e[6:]) if e.startswith("start ") else e for e in st.evs[n0:]]
        out.append(case("last-clone-dropped-at-the-wrap", st.script(), ["clone-wrap"], release=False))
        # every identifier from 1 to 65535 is used: one operation outstanding while 65534 others are allocated
        st = S()
        keep = st.sub(b"keep")
        st.poll(keep)
        st.ev("spin 65533 1000 unsub 1")
        st.pid_ctr = 65535
        last = st.pub(q=1, payload=b"the-65534th-other")
        st.poll(last)
        st.deliver(M.suback(1)), st.poll(keep)
        nxt = st.pub(q=2, payload=b"next")
        st.poll(nxt)
        out.append(case("full-cycle-65534-others", st.script(), ["full-cycle"], release=False))
    if pid == "C12":
        # DISCONNECT is a packet like any other
        for Mx, args in ((3, "r=0"), (4, "r=4"), (20, "r=4 rs=%s" % hx(b"r" * 30)), (30, "r=0 sei=5 up=6b:76 up=6b:77 rs=%s" % hx(b"going away for a while"))):
            st = S(connack_props=[(39, Mx)])
            d_ = st.disc(args)
            st.poll(d_), st.poll(d_)
            p_ = st.pub(q=0, topic=b"t", payload=b"")
            st.poll(p_), st.poll(p_)
            d2 = st.disc("r=0" if Mx >= 4 else "r=4")
            st.poll(d2), st.poll(d2)
            out.append(case("oversized-disconnect-M%d" % Mx, st.script(), ["disc-size"]))
    if pid == "C13":
        # several requests waiting when run() gets to them, the DISCONNECT among them: nothing after it, run() returns
        for pos in (1, 2):
            for q in (0, 1):
                st = S()
                st.ev("hold")
                x = [st.pub(q=q, payload=b"before-%d" % k) for k in range(pos)]
                for i in x:
                    st.poll(i)
                d_ = st.disc("r=0")
                st.poll(d_)
                y = [st.pub(q=q, payload=b"behind"), st.ping()]
                for i in y:
                    st.poll(i)
                st.ev("release")
                for i in x + [d_] + y:
                    st.poll(i)
                out.append(case("userdisc-queued-among-%d-q%d" % (pos, q), st.script(), ["disc-queued"]))
        # AUTH in answer to a CONNECT that named a method and sent no data (server-first mechanisms)
        for extra in ("am=6d", "am=6d ad=", "am=6d ad=01"):
            out.append(case("challenge-%s" % extra.replace(" ", "_").replace("=", ""), "connect %s ; deliver %s" % (extra, hx(M.auth(24, [(21, b"m"), (22, b"\x01")]))),
                            ["auth-method-only"]))
    if pid == "C14":
        # tens of thousands of operations after the Context is gone: each fails at once
        st = S()
        a = st.pub(q=1)
        st.poll(a), st.deliver(M.puback(1)), st.poll(a), st.ev("dropctx")
        st.ev("spin 66000 1000 pub1 0"), st.ev("spin 10 100000 sub 0")
        c_ = case("many-operations-after-the-drop", st.script(), ["after-drop-many"], release=False)
        c_["model"] = False          # 66000 operations left in the model's operation table are quadratic there; the monitor judges
        out.append(c_)
    if pid == "C15":
        # streams dropped one after the other, each followed by a message for it (QoS 1 / 2 first): the others live on
        for q in (1, 2):
            st = S()
            subs = [st.sub(b"s%d" % k) for k in range(4)]
            for i in subs:
                st.poll(i)
            for i in subs:
                st.deliver(M.suback(st.ops[i]["pid"]))
            for i in subs:
                st.poll(i), st.ev("tostream %d" % i)
            pid_ = [20]

            def msg(k, text, q_=q):
                pid_[0] += 1
                return M.publish(b"s", text, q_, pid_[0], ps=[(11, k + 1)])
            st.ev("dropstream %d" % subs[0]), st.deliver(msg(0, b"for-dead-0")), st.deliver(msg(0, b"for-dead-0-again", 0) )
            st.ev("dropstream %d" % subs[1]), st.deliver(msg(1, b"for-dead-1")), st.deliver(msg(2, b"for-live-2")), st.deliver(msg(3, b"for-live-3"))
            st.ev("pollstream %d" % subs[2]), st.ev("pollstream %d" % subs[2]), st.ev("pollstream %d" % subs[3])
            st.ev("dropstream %d" % subs[2]), st.deliver(msg(2, b"for-dead-2")), st.deliver(msg(3, b"for-live-3-again"))
            if q == 2:
                for k in range(21, pid_[0] + 1):
                    st.deliver(M.pubrel(k))
            for _ in range(3):
                st.ev("pollstream %d" % subs[3])
            out.append(case("streams-dropped-in-turn-q%d" % q, st.script(), ["dropped-stream", "in-turn"]))
    if pid == "C16":
        # a write the transport has blocked (Pending, waker kept), the task polled again for other reasons - inbound bytes, a new
        # request, a sweep, a spurious poll - before the transport takes another byte: the write just stays pending
        for accept in (0, 2, 5):
            for why in ("inbound", "request", "sweep", "fpoll", "two"):
                st = S()
                g = st.ping()
                st.poll(g)
                st.ev("wblock %d" % accept)
                x = st.pub(q=1, payload=b"blocked")
                st.poll(x)
                if why in ("inbound", "two"):
                    st.deliver(M.pingresp())
                if why in ("request", "two"):
                    y = st.pub(q=0, payload=b"queued behind")
                    st.poll(y)
                if why == "sweep":
                    st.ev("sweep"), st.ev("sweep")
                if why == "fpoll":
                    st.ev("fpoll %d" % x), st.ev("fpoll %d" % g)
                st.ev("wunblock")
                st.deliver(M.puback(1)), st.poll(x), st.poll(g), st.ev("sweep")
                c_ = case("blocked-write-repolled-%d-%s" % (accept, why), st.script(), ["blocked-repoll"])
                c_["model"] = False
                out.append(c_)
    if pid == "C17":
        # acknowledgements that overtake older handshakes take nothing but their own entry out of the queue
        for order in ([2], [3, 1], [2, 3], [4], [3], [4, 2]):
            st = S(connect_opts="sei=1000")
            x = [st.pub(q=1 + k % 2, payload=b"m%d" % k) for k in range(5)]
            for i in x:
                st.poll(i)
            for k in order:
                i = x[k]
                st.deliver(M.puback(st.ops[i]["pid"]) if st.ops[i]["q"] == 1 else M.pubrec(st.ops[i]["pid"], 128)), st.poll(i)
            st.ev("markdisc 5"), st.ev("reconnect"), st.ev("connect sei=1000"), st.deliver(M.connack(1)), st.ev("run")
            for i in x:
                st.poll(i)
            out.append(case("overtaking-acks-%s" % "-".join(map(str, order)), st.script(), ["overtaking"]))
        # the Session Expiry Interval in force is the CONNACK's when it names one - longer than asked for, too
        for csei, asei, elapsed in ((60, 3600, 100), (0, 500, 100), (60, 4294967295, 100000), (3600, 60, 100), (60, 3600, 4000)):
            st = S(connect_opts=("sei=%d" % csei) if csei else "")
            a, b_ = st.pub(q=1, payload=b"A"), st.pub(q=2, payload=b"B")
            st.poll(a), st.poll(b_)
            st.ev("markdisc %d" % 1), st.ev("reconnect"), st.ev(("connect sei=%d" % csei) if csei else "connect"), st.deliver(M.connack(1, 0, [(17, asei)])), st.ev("run")
            st.poll(a), st.poll(b_)
            st.ev("markdisc %d" % elapsed), st.ev("reconnect"), st.ev(("connect sei=%d" % csei) if csei else "connect"), st.deliver(M.connack(1, 0, [(17, asei)])), st.ev("run")
            st.poll(a), st.poll(b_), st.deliver(M.puback(1)), st.deliver(M.pubrec(2)), st.poll(a), st.poll(b_)
            out.append(case("connack-interval-%d-%d-%d" % (csei, asei, elapsed), st.script(), ["connack-sei"]))
    return out


# ---- round 8 --------------------------------------------------------------------------------------------------------------
def r8(pid):
    out = []
    if pid in ("C07", "C09"):
        # RETAIN says where the message came from, nothing about whether it was seen: a retained QoS 2 PUBLISH is recorded and
        # recognised like any other
        st = S()
        a = st.sub(b"a")
        st.poll(a), st.deliver(M.suback(1)), st.poll(a), st.ev("tostream %d" % a)
        st.deliver(M.publish(b"a", b"m1", 2, 7, 0, 1, ps=[(11, 1)])), st.deliver(M.publish(b"a", b"m1", 2, 7, 1, 1, ps=[(11, 1)]))
        st.deliver(M.pubrel(7)), st.deliver(M.publish(b"a", b"m2", 2, 7, 0, 1, ps=[(11, 1)])), st.deliver(M.publish(b"a", b"m2", 2, 7, 1, 0, ps=[(11, 1)]))
        for _ in range(3):
            st.ev("pollstream %d" % a)
        out.append(case("retained-qos2-redelivered", st.script(), ["retained-q2"]))
        # a PUBREL repeated (its PUBCOMP was lost) or for an identifier that is not recorded concerns that identifier only
        st = S()
        a = st.sub(b"a")
        st.poll(a), st.deliver(M.suback(1)), st.poll(a), st.ev("tostream %d" % a)
        st.deliver(M.publish(b"a", b"m7", 2, 7, ps=[(11, 1)])), st.deliver(M.pubrel(7)), st.deliver(M.publish(b"a", b"m8", 2, 8, ps=[(11, 1)]))
        st.deliver(M.publish(b"a", b"m9", 2, 9, ps=[(11, 1)])), st.deliver(M.pubrel(7)), st.deliver(M.pubrel(1234))
        st.deliver(M.publish(b"a", b"m8", 2, 8, 1, ps=[(11, 1)])), st.deliver(M.publish(b"a", b"m9", 2, 9, 1, ps=[(11, 1)]))
        st.deliver(M.pubrel(8)), st.deliver(M.publish(b"a", b"n8", 2, 8, ps=[(11, 1)])), st.deliver(M.pubrel(9)), st.deliver(M.pubrel(8))
        for _ in range(5):
            st.ev("pollstream %d" % a)
        out.append(case("repeated-pubrel-among-open-exchanges", st.script(), ["retained-q2"]))
    if pid in ("C07", "C02"):
        # a PUBLISH that arrives while a SUBSCRIBE - this one or another - is still unanswered is delivered like any other
        st = S()
        a = st.sub(b"a")
        st.poll(a)
        st.deliver(M.publish(b"a", b"retained-early", 1, 5, 0, 1, ps=[(11, 1), (3, b"text/plain"), (38, (b"k", b"v"))]))
        st.deliver(M.suback(1)), st.poll(a), st.ev("tostream %d" % a), st.ev("pollstream %d" % a)
        b_ = st.sub(b"b")
        st.poll(b_)
        st.deliver(M.publish(b"a", b"while-another-subscribe-is-pending", 0, None, ps=[(11, 1), (8, b"reply/to")])), st.ev("pollstream %d" % a)
        st.deliver(M.suback(2)), st.poll(b_), st.ev("pollstream %d" % a)
        out.append(case("publish-while-subscribe-pending", st.script(), ["sub-pending"]))
    if pid == "C06":
        # Content Type and Response Topic of different sizes, alone and together
        for k, extra in enumerate(("ct=%s" % hx(b"text/plain"), "rt=%s" % hx(b"r"), "ct= rt=%s" % hx(b"replies/here"), "ct=%s rt=%s" % (hx(b"a"), hx(b"bb")),
                                   "rt=%s ct=%s cd=%s" % (hx(b"x/y/z"), hx(b"application/octet-stream"), hx(b"id")))):
            for q in (1, 2):
                st = S()
                x = st.pub(q=q, topic=b"t/%d" % k, payload=b"payload", extra=extra + " ret=1")
                st.poll(x)
                y = st.pub(q=0, payload=b"next")
                st.poll(y), st.poll(y)
                st.deliver(M.puback(1) if q == 1 else M.pubrec(1)), st.poll(x)
                if q == 2:
                    st.deliver(M.pubcomp(1)), st.poll(x)
                out.append(case("content-type-response-topic-%d-q%d" % (k, q), st.script(), ["ct-rt"]))
    if pid == "C15":
        # a QoS 2 publish abandoned in the very poll that handed its PUBREL over, before the Context got to it: the PUBREL goes
        # out, its PUBCOMP frees the slot
        for R in (1, 2):
            st = S(connack_props=[(33, R)])
            st.ev("clone 0 1")
            x = st.pub(q=2, payload=b"gone-between")
            st.poll(x), st.deliver(M.pubrec(1)), st.ev("hold"), st.poll(x), st.ev("dropop %d" % x), st.ev("release")
            st.deliver(M.pubcomp(1)), st.freed()
            y = [st.pub(q=1, payload=b"other-%d" % k, handle=1) for k in range(R)]
            for i in y:
                st.poll(i), st.poll(i)
            for i in y:
                st.deliver(M.puback(st.ops[i]["pid"])), st.poll(i)
            out.append(case("abandoned-with-pubrel-queued-R%d" % R, st.script(), ["abandoned", "pubrel-queued"]))
    return out


# ---- round 9 ------------------------------------------------------------------------------------------------------------------
TIER_THOROUGH = [False]


def r9(pid):
    out = []
    if pid in ("C10", "C15"):
        # a QoS 2 publish abandoned before its PUBREC: a PUBREC below 0x80 completes nothing, the slot stays taken whoever waits
        for R in (1, 2, 3):
            st = S(connack_props=[(33, R)])
            fill = [st.pub(q=2, payload=b"f%d" % k) for k in range(R)]
            for i in fill:
                st.poll(i)
            st.ev("dropop %d" % fill[0])
            st.deliver(M.pubrec(st.ops[fill[0]]["pid"]))
            more = [st.pub(q=1 + k % 2, payload=b"m%d" % k) for k in range(2)]
            for i in more:
                st.poll(i)
            for i in more:
                st.poll(i)
            out.append(case("abandoned-before-pubrec-R%d" % R, st.script(), ["abandoned", "R%d" % R]))
    if pid in ("C11", "C12"):
        # a subscribe refused locally for its size has used up its subscription identifier for good: another subscribe that took
        # the next one in the meantime keeps it to itself
        for order in ("late-refusal", "early-refusal"):
            st = S(connack_props=[(39, 64)])
            a = st.sub(topic=b"f" * 80)
            st.poll(a)
            b_ = st.sub(topic=b"b")
            st.poll(b_)
            if order == "late-refusal":
                st.poll(a)                      # A learns of its refusal only now, after B took the next identifier
            c_ = st.sub(topic=b"c")
            st.poll(c_)
            if order != "late-refusal":
                st.poll(a)
            d_ = st.sub(topic=b"d")
            st.poll(d_)
            st.deliver(M.suback(st.ops[b_]["pid"])), st.poll(b_), st.deliver(M.suback(st.ops[c_]["pid"])), st.poll(c_)
            st.deliver(M.suback(st.ops[d_]["pid"])), st.poll(d_)
            out.append(case("refused-subscribe-keeps-its-identifier-%s" % order, st.script(), ["refused-subscribe", order]))
    if pid in ("C07", "C09", "C08"):
        # only QoS 2 has re-deliveries to suppress: an inbound QoS 1 identifier is free again once its PUBACK is written, and a
        # later PUBLISH of any QoS that reuses it is a new message
        st = S()
        a = st.sub(b"a")
        st.poll(a), st.deliver(M.suback(1)), st.poll(a), st.ev("tostream %d" % a)
        st.deliver(M.publish(b"a", b"x", 1, 7, ps=[(11, 1)])), st.deliver(M.publish(b"a", b"y", 1, 8, ps=[(11, 1)]))
        st.deliver(M.publish(b"a", b"z", 1, 7, ps=[(11, 1)])), st.deliver(M.publish(b"a", b"w", 2, 8, ps=[(11, 1)]))
        st.deliver(M.publish(b"a", b"w", 2, 8, 1, ps=[(11, 1)])), st.deliver(M.pubrel(8)), st.deliver(M.publish(b"a", b"v", 1, 8, 1, ps=[(11, 1)]))
        for _ in range(6):
            st.ev("pollstream %d" % a)
        out.append(case("qos1-identifier-reused", st.script(), ["qos1-reuse"]))
    if pid in ("C07", "C13"):
        # streams end when the Context is gone, not when a connection ends: after the user's DISCONNECT (any Session Expiry
        # Interval, 0 and omitted included) the stream is still there, and serves the next connection of the same Context
        for nm, co in (("omitted", ""), ("zero", "sei=0"), ("nonzero", "sei=30")):
            st = S(connect_opts=co)
            a = st.sub(b"a")
            st.poll(a), st.deliver(M.suback(1)), st.poll(a), st.ev("tostream %d" % a)
            st.deliver(M.publish(b"a", b"m1", 0, None, ps=[(11, 1)])), st.ev("pollstream %d" % a)
            d = st.disc()
            st.poll(d), st.poll(d)
            st.ev("pollstream %d" % a)
            st.ev("reconnect"), st.ev(("connect " + co).strip()), st.deliver(M.connack(0)), st.ev("run")
            st.deliver(M.publish(b"a", b"m2", 1, 9, ps=[(11, 1)])), st.ev("pollstream %d" % a), st.ev("pollstream %d" % a)
            st.ev("dropctx"), st.ev("pollstream %d" % a)
            out.append(case("stream-outlives-disconnect-%s" % nm, st.script(), ["stream-outlives", nm]))
    if pid == "C12":
        # the largest packet MQTT can express: 1 + 4 + 268 435 455 bytes. A Maximum Packet Size at or above it refuses nothing,
        # one byte below it refuses exactly that packet. Implementation only (the model's byte lists are not made for 256 MiB);
        # the harness prints such a write as length:digest:head.
        Lmax = 268435460
        for nm, Mx in (("M=L", Lmax), ("M=L-1", Lmax - 1)) + ((("M=L+1", Lmax + 1), ("M=max", 4294967295), ("M=absent", None)) if TIER_THOROUGH[0] else ()):
            st = S(connack_props=[(39, Mx)] if Mx else [])
            i = st.pub(q=0, payload=None, extra="pl=r%dx00" % (Lmax - 9))
            st.poll(i), st.poll(i)
            c_ = case("protocol-maximum-%s" % nm, st.script(), ["protocol-maximum", nm], L=Lmax, M=Mx, kind="pub0")
            c_["model"] = False
            out.append(c_)
    if pid == "C10":
        # RETAIN is a flag of the message, not of the exchange: retained QoS>0 publishes take and free slots like any other
        for R in (1, 2):
            for q in (1, 2):
                st = S(connack_props=[(33, R)])
                fill = [st.pub(q=q, payload=b"r%d" % k, extra="ret=1") for k in range(R)]
                for i in fill:
                    st.poll(i)
                x = st.pub(q=3 - q, payload=b"over", extra="ret=1")
                st.poll(x), st.poll(x)
                p0 = st.ops[fill[0]]["pid"]
                if q == 1:
                    st.deliver(M.puback(p0)), st.poll(fill[0])
                else:
                    st.deliver(M.pubrec(p0)), st.poll(fill[0]), st.deliver(M.pubcomp(p0)), st.poll(fill[0])
                more = [st.pub(q=q, payload=b"n%d" % k, extra="ret=%d" % (1 - k)) for k in range(2)]
                for i in more:
                    st.poll(i)
                for i in more:
                    st.poll(i)
                out.append(case("retained-R%d-q%d" % (R, q), st.script(), ["retained", "R%d" % R]))
    return out
