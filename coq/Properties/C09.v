(* C09 - an inbound QoS 2 message is delivered to the application exactly once. *)
From Poster Require Import Model.Client Proofs.ClientP Proofs.HandshakeP.

(* a re-delivery - the identifier was answered with PUBREC and its PUBREL has not arrived: PUBREC
   is written again, no stream receives anything, the awaited set is unchanged *)
Theorem C09_redelivery : forall (s : sys) (p : rxpkt),
  rk p = KPublish -> r_qos p = 2 -> memN (r_pid p) (await_rel (c s)) = true -> wbudget s = None ->
  streams (fst (handle_packet s p)) = streams s /\
  await_rel (c (fst (handle_packet s p))) = await_rel (c s) /\
  wire_ev (fst (handle_packet s p)) = wire_ev s ++ enc_pubrec (r_pid p).
Proof. exact q2_redelivery. Qed.
Print Assumptions C09_redelivery.

(* a new QoS 2 message: its identifier is recorded, it is dispatched once, PUBREC is written *)
Theorem C09_new_message : forall (s : sys) (p : rxpkt),
  rk p = KPublish -> r_qos p = 2 -> memN (r_pid p) (await_rel (c s)) = false -> wbudget s = None ->
  let s1 := set_c s (with_rel (c s) (await_rel (c s) ++ [r_pid p])) in
  streams (fst (handle_packet s p)) =
    streams (match pub_subid p with Some sid => dispatch s1 sid p | None => s1 end) /\
  await_rel (c (fst (handle_packet s p))) = await_rel (c s) ++ [r_pid p] /\
  wire_ev (fst (handle_packet s p)) = wire_ev s ++ enc_pubrec (r_pid p).
Proof. exact q2_new. Qed.
Print Assumptions C09_new_message.

(* PUBREL releases the identifier (a later PUBLISH reusing it is a new message) and is answered
   with PUBCOMP; no stream changes *)
Theorem C09_release : forall (s : sys) (p : rxpkt), rk p = KPubrel -> wbudget s = None ->
  await_rel (c (fst (handle_packet s p))) = filter (fun i => negb (i =? r_pid p)) (await_rel (c s)) /\
  streams (fst (handle_packet s p)) = streams s /\
  wire_ev (fst (handle_packet s p)) = wire_ev s ++ enc_pubcomp (r_pid p).
Proof. exact q2_release. Qed.
Print Assumptions C09_release.
