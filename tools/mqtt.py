"""MQTT 5 byte-level helpers for the generators and the trace oracles (written from the standard).
Everything the implementation is fed is plain hex in the case script, so a mistake here shows up
as a disagreement, never as a silent pass of a property theorem."""


def hx(b):
    b = bytes(b)
    return b.hex() if b else "-"


def unhex(s):
    out = bytearray()
    for part in s.split("+"):
        if part in ("-", ""):
            continue
        if part[0] == "r":
            cnt, byte = part[1:].split("x")
            out += bytes([int(byte, 16)]) * int(cnt)
        else:
            out += bytes.fromhex(part)
    return bytes(out)


def varint(n):
    out = bytearray()
    while True:
        d = n % 128
        n //= 128
        if n:
            out.append(d | 128)
        else:
            out.append(d)
            return bytes(out)


def u16(n):
    return bytes([(n >> 8) & 255, n & 255])


def u32(n):
    return bytes([(n >> 24) & 255, (n >> 16) & 255, (n >> 8) & 255, n & 255])


def binf(b):
    return u16(len(b)) + bytes(b)


# property table of the standard: id -> type
PTYPE = {1: "byte", 2: "u32", 3: "str", 8: "str", 9: "bin", 11: "var", 17: "u32", 18: "str", 19: "u16",
         21: "str", 22: "bin", 23: "byte", 24: "u32", 25: "byte", 26: "str", 28: "str", 31: "str",
         33: "u16", 34: "u16", 35: "u16", 36: "byte", 37: "byte", 38: "pair", 39: "u32", 40: "byte",
         41: "byte", 42: "byte"}


def prop(pid, val):
    t = PTYPE[pid]
    if t == "byte":
        return bytes([pid, val])
    if t == "u16":
        return bytes([pid]) + u16(val)
    if t == "u32":
        return bytes([pid]) + u32(val)
    if t == "var":
        return bytes([pid]) + varint(val)
    if t in ("str", "bin"):
        return bytes([pid]) + binf(val)
    k, v = val
    return bytes([pid]) + binf(k) + binf(v)


def props(ps):
    body = b"".join(prop(i, v) for i, v in ps)
    return varint(len(body)) + body


def packet(hdr, body):
    return bytes([hdr]) + varint(len(body)) + bytes(body)


def connack(sp=0, reason=0, ps=()):
    return packet(0x20, bytes([sp, reason]) + props(ps))


def ack(hdr, pid, reason=0, ps=(), form="auto"):
    """PUBACK 0x40, PUBREC 0x50, PUBREL 0x62, PUBCOMP 0x70"""
    if form == "auto":
        form = "short2" if reason == 0 and not ps else ("short3" if not ps else "long")
    if form == "short2":
        return packet(hdr, u16(pid))
    if form == "short3":
        return packet(hdr, u16(pid) + bytes([reason]))
    return packet(hdr, u16(pid) + bytes([reason]) + props(ps))


def puback(pid, reason=0, ps=(), form="auto"):
    return ack(0x40, pid, reason, ps, form)


def pubrec(pid, reason=0, ps=(), form="auto"):
    return ack(0x50, pid, reason, ps, form)


def pubrel(pid, reason=0, ps=(), form="auto"):
    return ack(0x62, pid, reason, ps, form)


def pubcomp(pid, reason=0, ps=(), form="auto"):
    return ack(0x70, pid, reason, ps, form)


def suback(pid, codes=(0,), ps=()):
    return packet(0x90, u16(pid) + props(ps) + bytes(codes))


def unsuback(pid, codes=(0,), ps=()):
    return packet(0xb0, u16(pid) + props(ps) + bytes(codes))


def pingresp():
    return bytes([0xd0, 0])


def publish(topic=b"a", payload=b"", qos=0, pid=None, dup=0, retain=0, ps=()):
    body = binf(topic)
    if qos:
        body += u16(pid)
    body += props(ps) + bytes(payload)
    return packet(0x30 | (dup << 3) | (qos << 1) | retain, body)


def disconnect(reason=0, ps=(), form="auto"):
    if form == "auto":
        form = "short0" if reason == 0 and not ps else ("short1" if not ps else "long")
    if form == "short0":
        return bytes([0xe0, 0])
    if form == "short1":
        return bytes([0xe0, 1, reason])
    return packet(0xe0, bytes([reason]) + props(ps))


def auth(reason=0, ps=(), form="auto"):
    if form == "auto":
        form = "short0" if reason == 0 and not ps else "long"
    if form == "short0":
        return bytes([0xf0, 0])
    return packet(0xf0, bytes([reason]) + props(ps))


# ---- reference framer / decoder of what the CLIENT writes (for the trace oracles) -----------------

def read_varint(b, i):
    mult, val = 1, 0
    for k in range(4):
        if i + k >= len(b):
            return None
        val += (b[i + k] & 127) * mult
        mult *= 128
        if not b[i + k] & 128:
            return val, i + k + 1
    return None


def split_packets(b):
    """wire bytes -> list of whole packets, or None when the bytes are not a concatenation of packets"""
    out, i = [], 0
    while i < len(b):
        if i + 1 >= len(b):
            return None
        r = read_varint(b, i + 1)
        if r is None:
            return None
        n, j = r
        if j + n > len(b):
            return None
        out.append(bytes(b[i:j + n]))
        i = j + n
    return out


def tx_info(p):
    """light decode of a client packet: kind, pid, dup, qos (enough for the trace monitors)"""
    t = p[0] >> 4
    r = read_varint(p, 1)
    body = p[r[1]:]
    kinds = {1: "connect", 3: "publish", 4: "puback", 5: "pubrec", 6: "pubrel", 7: "pubcomp",
             8: "subscribe", 10: "unsubscribe", 12: "pingreq", 14: "disconnect", 15: "auth"}
    d = {"kind": kinds.get(t, "?%d" % t), "flags": p[0] & 15, "len": len(p), "raw": p}
    if t == 3:
        d["dup"], d["qos"], d["retain"] = (p[0] >> 3) & 1, (p[0] >> 1) & 3, p[0] & 1
        tl = (body[0] << 8) | body[1]
        d["topic"] = body[2:2 + tl]
        k = 2 + tl
        if d["qos"]:
            d["pid"] = (body[k] << 8) | body[k + 1]
            k += 2
        pl, k2 = read_varint(body, k)
        d["props_raw"] = body[k2:k2 + pl]
        d["payload"] = body[k2 + pl:]
    elif t in (4, 5, 6, 7, 8, 10):
        d["pid"] = (body[0] << 8) | body[1]
        if t == 8:
            pl, k2 = read_varint(body, 2)
            pr = body[k2:k2 + pl]
            if pr[:1] == b"\x0b":
                d["subid"] = read_varint(pr, 1)[0]
    return d


# ---- strict well-formedness of a CLIENT packet, written from the standard (for the C01 oracle) --------------

def strict_varint(b, i):
    """(value, next index) of a variable byte integer in its MINIMAL encoding (MQTT-1.5.5-1), else None"""
    r = read_varint(b, i)
    if r is None:
        return None
    v, j = r
    if bytes(b[i:j]) != varint(v):
        return None
    return v, j


def _utf8(b):
    try:
        bytes(b).decode("utf-8")
        return True
    except UnicodeDecodeError:
        return False


def check_props(pr, allowed, repeatable=(38,)):
    """property section body -> error string or None"""
    i, seen = 0, set()
    while i < len(pr):
        pid = pr[i]
        t = PTYPE.get(pid)
        if t is None or pid not in allowed:
            return "property 0x%02x not allowed here" % pid
        if pid in seen and pid not in repeatable:
            return "property 0x%02x repeated" % pid
        seen.add(pid)
        i += 1
        if t == "byte":
            n = 1
        elif t == "u16":
            n = 2
        elif t == "u32":
            n = 4
        elif t == "var":
            r = strict_varint(pr, i)
            if r is None:
                return "malformed variable byte integer in a property"
            n = r[1] - i
        elif t in ("str", "bin", "pair"):
            n = 0
            for part in range(2 if t == "pair" else 1):
                if i + n + 2 > len(pr):
                    return "truncated property"
                ln = (pr[i + n] << 8) | pr[i + n + 1]
                if i + n + 2 + ln > len(pr):
                    return "truncated property"
                if t != "bin" and not _utf8(pr[i + n + 2:i + n + 2 + ln]):
                    return "invalid UTF-8 in a property"
                n += 2 + ln
        if i + n > len(pr):
            return "truncated property"
        i += n
    return None


def _props_at(body, k, allowed, repeatable=(38,)):
    r = strict_varint(body, k)
    if r is None:
        return "property length is not a minimal variable byte integer", None
    pl, k2 = r
    if k2 + pl > len(body):
        return "property length exceeds the packet", None
    e = check_props(body[k2:k2 + pl], allowed, repeatable)
    return e, k2 + pl


def _str_at(body, k, utf8=True):
    if k + 2 > len(body):
        return "truncated string", None
    ln = (body[k] << 8) | body[k + 1]
    if k + 2 + ln > len(body):
        return "string length exceeds the packet", None
    if utf8 and not _utf8(body[k + 2:k + 2 + ln]):
        return "invalid UTF-8", None
    return None, k + 2 + ln


def wellformed_client_packet(p):
    """None when p is exactly one well-formed MQTT 5 control packet a client may send, else what is wrong"""
    if len(p) < 2:
        return "shorter than a fixed header"
    t, flags = p[0] >> 4, p[0] & 15
    r = strict_varint(p, 1)
    if r is None:
        return "remaining length is not a minimal variable byte integer"
    rl, j = r
    if j + rl != len(p):
        return "remaining length %d does not equal the %d bytes that follow" % (rl, len(p) - j)
    body = p[j:]
    want_flags = {1: 0, 4: 0, 5: 0, 6: 2, 7: 0, 8: 2, 10: 2, 12: 0, 14: 0, 15: 0}
    if t in want_flags and flags != want_flags[t]:
        return "reserved header flags 0x%x" % flags
    if t == 1:
        if bytes(body[:7]) != b"\x00\x04MQTT\x05":
            return "protocol name/version"
        cf = body[7]
        if cf & 1:
            return "reserved connect flag set"
        will = (cf >> 2) & 1
        if not will and (cf & 0x38):
            return "will QoS/retain set without a will"
        if ((cf >> 3) & 3) == 3:
            return "will QoS 3"
        e, k = _props_at(body, 10, {17, 33, 39, 34, 25, 23, 38, 21, 22})
        if e:
            return "CONNECT properties: " + e
        e, k = _str_at(body, k)
        if e:
            return "client identifier: " + e
        if will:
            e, k = _props_at(body, k, {24, 1, 2, 3, 8, 9, 38})
            if e:
                return "will properties: " + e
            e, k = _str_at(body, k)
            if e:
                return "will topic: " + e
            e, k = _str_at(body, k, utf8=False)
            if e:
                return "will payload: " + e
        if cf & 0x80:
            e, k = _str_at(body, k)
            if e:
                return "user name: " + e
        if cf & 0x40:
            e, k = _str_at(body, k, utf8=False)
            if e:
                return "password: " + e
        return None if k == len(body) else "trailing bytes in CONNECT"
    if t == 3:
        qos = (flags >> 1) & 3
        if qos == 3:
            return "QoS 3"
        e, k = _str_at(body, 0)
        if e:
            return "topic: " + e
        if qos:
            if k + 2 > len(body) or ((body[k] << 8) | body[k + 1]) == 0:
                return "packet identifier missing or zero"
            k += 2
        e, k = _props_at(body, k, {1, 2, 35, 8, 9, 38, 3})
        return ("PUBLISH properties: " + e) if e else None
    if t in (4, 5, 6, 7):
        if len(body) < 2 or ((body[0] << 8) | body[1]) == 0:
            return "packet identifier missing or zero"
        if len(body) == 2 or len(body) == 3:
            return None
        e, k = _props_at(body, 3, {31, 38})
        return ("ack properties: " + e) if e else (None if k == len(body) else "trailing bytes in an acknowledgement")
    if t in (8, 10):
        if len(body) < 2 or ((body[0] << 8) | body[1]) == 0:
            return "packet identifier missing or zero"
        e, k = _props_at(body, 2, {11, 38} if t == 8 else {38})
        if e:
            return "properties: " + e
        n = 0
        while k < len(body):
            e, k = _str_at(body, k)
            if e:
                return "topic filter: " + e
            if t == 8:
                if k >= len(body):
                    return "subscription options missing"
                o = body[k]
                if o & 0xc0 or (o & 3) == 3 or ((o >> 4) & 3) == 3:
                    return "subscription options byte 0x%02x uses reserved bits/values" % o
                k += 1
            n += 1
        return None if n else "no topic filter"
    if t == 12:
        return None if rl == 0 else "PINGREQ with a body"
    if t == 14:
        if rl == 0 or rl == 1:
            return None
        e, k = _props_at(body, 1, {17, 31, 38, 28})
        return ("DISCONNECT properties: " + e) if e else (None if k == len(body) else "trailing bytes in DISCONNECT")
    if t == 15:
        if rl == 0:
            return None
        if rl == 1:
            return "AUTH with remaining length 1"
        e, k = _props_at(body, 1, {21, 22, 31, 38})
        return ("AUTH properties: " + e) if e else (None if k == len(body) else "trailing bytes in AUTH")
    return "packet type %d is not sent by a client" % t
