(* C12 at the top of the range: no packet the encoders produce is longer than 1 + 4 + 268 435 455 bytes (fixed header byte,
   four bytes of remaining length, the largest remaining length), so a Maximum Packet Size at or above that refuses nothing.
   (Seeded defect C12-9B clamped the announced limit to 268 435 455, the largest REMAINING LENGTH.) *)
From Poster Require Import Model.Client Proofs.BytesP Proofs.VarintP Proofs.CodecP Proofs.ClientP.
From Coq Require Import Lia.
Arguments N.add : simpl never. Arguments N.mul : simpl never. Arguments N.sub : simpl never.
Arguments N.ltb : simpl never. Arguments N.leb : simpl never. Arguments N.eqb : simpl never.

Definition PMAX : N := 268435460.
Lemma vlen0_le4 n : VarintP.vlen0 n <= 4.
Proof.
  unfold VarintP.vlen0, vlen. destruct (n <=? 127); [lia|]. destruct (n <=? 16383); [lia|].
  destruct (n <=? 2097151); [lia|]. destruct (n <=? VMAX); lia.
Qed.
Theorem packet_le_pmax hdr fs b : Forall wf_fld fs -> enc_packet hdr fs = Ok b -> lenN b <= PMAX.
Proof.
  intros Hw He. destruct (enc_packet_framed hdr fs b Hw He) as (body & Hb & _ & Hle & _). subst b.
  rewrite lenN_cons, lenN_app, (venc_len _ Hle). pose proof (vlen0_le4 (lenN body)) as H4. unfold PMAX, VMAX in *. lia.
Qed.
Theorem big_limit_refuses_nothing x hdr fs b m : Forall wf_fld fs -> enc_packet hdr fs = Ok b ->
  maxpkt x = Some m -> PMAX <= m -> size_ok x b = true.
Proof.
  intros Hw He Hm Hle. apply size_ok_spec. right. exists m. split; [exact Hm|].
  pose proof (packet_le_pmax hdr fs b Hw He). lia.
Qed.
(* and the limit is compared with the whole packet - header byte and length field included -, nothing else *)
Theorem size_ok_exact x b m : maxpkt x = Some m -> size_ok x b = (lenN b <=? m).
Proof. unfold size_ok. intros ->. reflexivity. Qed.
