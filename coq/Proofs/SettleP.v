(* C16 at the level of the Context task: the run loop goes to sleep only when it has nothing left to do and both of its
   sources have registered a wakeup, and polling it again in that situation changes nothing.
   settle (Model/Client.v) is "poll the Context task until it returns Pending or finishes"; its fuel is shown adequate
   here, so the model never cuts a run short, and settle is idempotent on every reachable state. *)
From Poster Require Import Model.Sim Spec.Frames Proofs.BytesP Proofs.ListP Proofs.RxP Proofs.FramingP
  Proofs.FramingMainP Proofs.ClientP Proofs.SimInvP.
From Coq Require Import ZArith ZifyN ZifyBool ZifyNat Lia.
Arguments N.add : simpl never. Arguments N.mul : simpl never. Arguments N.sub : simpl never.
Arguments N.ltb : simpl never. Arguments N.leb : simpl never. Arguments N.eqb : simpl never.

(* ---- the bytes the framing layer holds are really in the buffer (not in its lazily counted zero tail) ---------------- *)
Definition SZ (x : rx) : Prop := size x <= lenN (zd (buf x)).
Lemma zresize_zd n b : n <= lenN (zd b) -> lenN (zd (zresize n b)) = n.
Proof. intros H. unfold zresize. replace (n <=? lenN (zd b)) with true by (symmetry; apply N.leb_le; exact H). cbn [zd]. rewrite lenN_takeN. lia. Qed.
Lemma zresize_zd_ge n m b : m <= n -> m <= lenN (zd b) -> m <= lenN (zd (zresize n b)).
Proof.
  intros H1 H2. unfold zresize. destruct (n <=? lenN (zd b)) eqn:E; cbn [zd]; [|exact H2].
  apply N.leb_le in E. rewrite lenN_takeN. lia.
Qed.
Lemma zfill_zd at_ d b : at_ <= lenN (zd b) -> at_ + lenN d <= lenN (zd (zfill at_ d b)).
Proof.
  intros H. unfold zfill. cbv zeta. replace (at_ <=? lenN (zd b)) with true by (symmetry; apply N.leb_le; exact H).
  cbn [zd]. rewrite !lenN_app, lenN_takeN, lenN_dropN. lia.
Qed.
Lemma zdrop_zd n b : lenN (zd b) - n <= lenN (zd (zdrop n b)).
Proof. unfold zdrop. destruct (n <=? lenN (zd b)) eqn:E; cbn [zd]; [rewrite lenN_dropN; lia|]. apply N.leb_gt in E. cbn. lia. Qed.

Lemma fpoll_SZ fuel : forall x rd, SZ x -> SZ (snd (fst (fpoll fuel x rd))).
Proof.
  induction fuel as [|fuel IH]; intros x rd Hs; cbn [fpoll]; [exact Hs|].
  destruct (fstate x).
  - set (chunk := if pend x - size x <? 512 then 512 else pend x).
    assert (Hb : size x <= lenN (zd (zresize (size x + chunk) (buf x)))) by (apply zresize_zd_ge; [lia|exact Hs]).
    destruct (read chunk rd) as [[d| |] rd']; cbn [fst snd]; try exact Hb.
    destruct (lenN d =? 0); cbn [fst snd]; [exact Hb|]. apply IH. unfold SZ. cbn [size buf]. apply zfill_zd. exact Hb.
  - destruct (vdec (tl (ztake 6 (buf x)))); cbn [fst snd]; try exact Hs; apply IH; exact Hs.
  - destruct (size x <? pend x) eqn:E; [apply IH; exact Hs|]. cbn [fst snd]. unfold SZ in *. cbn [size buf].
    pose proof (zdrop_zd (pend x) (buf x)). lia.
Qed.

Definition SZs (s : sys) : Prop := SZ (fr s).
Lemma SZs_io s s' : io s' = io s -> SZs s -> SZs s'.
Proof. unfold io, SZs. intros H. inversion H as [[H1 H2 H3]]. rewrite H2. auto. Qed.
Lemma SZs_exit s r : SZs s -> SZs (exit_run s r).
Proof. exact (fun H => H). Qed.

Lemma run_turn_SZ s : SZs s -> SZs (fst (run_turn s)).
Proof.
  intros Hs. pose proof (fpoll_SZ (poll_fuel (rd s)) (fr s) (rd s) Hs) as Hp. unfold run_turn.
  destruct (fpoll (poll_fuel (rd s)) (fr s) (rd s)) as [[o f] r]. cbn [fst snd] in Hp.
  assert (H0 : SZs (set_io s r f)) by exact Hp.
  destruct o as [bs| | | |]; try exact H0.
  - destruct (dec_packet bs) as [p| |]; try exact H0.
    pose proof (io_handle_packet (set_io s r f) p) as Hio. destruct (handle_packet (set_io s r f) p) as [s1 a]. cbn [fst] in Hio.
    assert (H1 : SZs s1) by (eapply SZs_io; eassumption). destruct a; exact H1.
  - destruct (msgq (set_io s r f)) as [|m q]; [destruct (live_senders _ =? 0); exact H0|].
    pose proof (io_handle_message (set_msgq (set_io s r f) q) m) as Hio.
    destruct (handle_message (set_msgq (set_io s r f) q) m) as [s1 a]. cbn [fst] in Hio.
    assert (H1 : SZs s1) by (eapply SZs_io; [exact Hio|exact H0]). destruct a; exact H1.
Qed.
Lemma conn_turn_SZ s : SZs s -> SZs (conn_turn s).
Proof.
  intros Hs. pose proof (fpoll_SZ (poll_fuel (rd s)) (fr s) (rd s) Hs) as Hp. unfold conn_turn.
  destruct (fpoll (poll_fuel (rd s)) (fr s) (rd s)) as [[o f] r]. cbn [fst snd] in Hp.
  destruct o as [bs| | | |]; try exact Hp.
  destruct (dec_packet bs) as [p| |]; try exact Hp. destruct (rk p); exact Hp.
Qed.
Lemma settle_loop_SZ fuel : forall s, SZs s -> SZs (settle_loop fuel s).
Proof.
  induction fuel as [|fuel IH]; intros s Hs; cbn [settle_loop]; [exact Hs|].
  destruct (cph s); [exact Hs|apply conn_turn_SZ; exact Hs|].
  pose proof (run_turn_SZ s Hs) as H. destruct (run_turn s) as [s1 t]. cbn [fst] in H. destruct t; [exact H|apply IH; exact H].
Qed.
Lemma settle_SZ s : SZs s -> SZs (settle s).
Proof. intros H. unfold settle. destruct (hold s || negb (ctx_alive s)); [exact H|apply settle_loop_SZ; exact H]. Qed.

(* ---- what the Context's handlers leave alone: phase of the task and the request queue ------------------------------ *)
Definition cq (s : sys) := (cph s, msgq s).
Lemma cq_complete s i ph v : cq (complete s i ph v) = cq s.
Proof. unfold complete. destruct (alookup i (ops s)); reflexivity. Qed.
Lemma cq_cancel s i ph : cq (cancel s i ph) = cq s.
Proof. unfold cancel. destruct (alookup i (ops s)); reflexivity. Qed.
Lemma cq_close s j : cq (close_stream_sender s j) = cq s.
Proof. unfold close_stream_sender. destruct (alookup j (streams s)); reflexivity. Qed.
Lemma cq_write s p : cq (fst (write s p)) = cq s.
Proof. unfold write. destruct (wbudget s); [destruct (_ <=? _)|]; reflexivity. Qed.
Lemma cq_ack_waiter s a p : cq (ack_waiter s a p) = cq s.
Proof. unfold ack_waiter. destruct (alookup a (awaiting (c s))) as [[i ph]|]; [|reflexivity]. rewrite cq_complete. reflexivity. Qed.
Lemma cq_dispatch s sid p : cq (dispatch s sid p) = cq s.
Proof.
  unfold dispatch. destruct (alookup sid (subs (c s))) as [j|]; [|reflexivity].
  destruct (alookup j (streams s)) as [st|]; [destruct (st_recv st)|]; rewrite ?cq_close; reflexivity.
Qed.
Lemma cq_handle_packet s p : cq (fst (handle_packet s p)) = cq s.
Proof.
  unfold handle_packet. cbv zeta. destruct (rk p); cbn [fst]; rewrite ?cq_ack_waiter, ?cq_write; try reflexivity.
  destruct (r_qos p =? 0); cbn [fst]; rewrite ?cq_write;
    repeat match goal with
    | |- context [if ?b then _ else _] => destruct b
    | |- context [match pub_subid p with _ => _ end] => destruct (pub_subid p)
    end; rewrite ?cq_dispatch; reflexivity.
Qed.
Lemma cq_set_c s x : cq (set_c s x) = cq s. Proof. reflexivity. Qed.
Ltac cq_simpl := repeat (rewrite ?cq_set_c, ?cq_cancel, ?cq_write, ?cq_complete, ?cq_close).
Lemma cq_handle_message s m : cq (fst (handle_message s m)) = cq s.
Proof.
  unfold handle_message. cbv zeta. destruct m as [i p|i ph a p|i a sid p].
  - destruct (negb (size_ok (c s) p)); cbn [fst]; [apply cq_complete|].
    destruct (negb (snd (write s p))); cbn [fst]; cq_simpl; reflexivity.
  - destruct (negb (size_ok (c s) p)); cbn [fst]; [apply cq_complete|].
    destruct (ptype_of p =? 3).
    + destruct (quota (c s) =? 0); cbn [fst]; [apply cq_complete|].
      destruct (negb (snd (write _ p))); cbn [fst]; cq_simpl; reflexivity.
    + destruct (ptype_of p =? 6); destruct (negb (snd (write s p))); cbn [fst]; cq_simpl; reflexivity.
  - destruct (negb (size_ok (c s) p)); cbn [fst]; cq_simpl; reflexivity.
Qed.

(* ---- where the Context task stops ----------------------------------------------------------------------------------- *)
(* asleep in run(): nothing queued, at least one handle alive, and the transport's last answer was Pending *)
Definition Asleep (s : sys) : Prop :=
  msgq s = [] /\ live_senders s <> 0 /\ exists fuel x r, fpoll fuel x r = (FPending, fr s, rd s).
(* asleep in connect()/authorize(): the transport's last answer was Pending *)
Definition AsleepConn (s : sys) : Prop := exists fuel x r, fpoll fuel x r = (FPending, fr s, rd s).
Definition Stopped (s : sys) : Prop :=
  match cph s with CIdle => True | CConnecting => AsleepConn s | CRunning => Asleep s end.

Lemma set_io_same s : set_io s (rd s) (fr s) = s.
Proof. destruct s; reflexivity. Qed.
Lemma poll_fuel_S r : exists n, poll_fuel r = S n.
Proof. unfold poll_fuel. exists (N.to_nat (4 * (lenN (segs r) + total_len (segs r) / 512) + 7)). lia. Qed.

(* a stopped task polled again: nothing happens *)
Lemma stopped_fix s : Stopped s -> forall n, settle_loop n s = s.
Proof.
  intros Hs [|n]; cbn [settle_loop]; [reflexivity|]. unfold Stopped in Hs. destruct (cph s) eqn:Ec; [reflexivity| |].
  - destruct Hs as (fuel & x & r & Hp). destruct (poll_fuel_S (rd s)) as [k Hk].
    unfold conn_turn. rewrite Hk, (fpoll_pending_idempotent _ _ _ _ _ Hp k). apply set_io_same.
  - destruct Hs as (Hq & Hl & fuel & x & r & Hp). destruct (poll_fuel_S (rd s)) as [k Hk].
    unfold run_turn. rewrite Hk, (fpoll_pending_idempotent _ _ _ _ _ Hp k). rewrite set_io_same, Hq.
    replace (live_senders s =? 0) with false by (symmetry; apply N.eqb_neq; exact Hl). reflexivity.
Qed.

(* progress measure of the run loop: queued requests + bytes not yet handed out as packets *)
Definition mu (s : sys) : N := lenN (msgq s) + size (fr s) + total_len (segs (rd s)).

Lemma run_turn_progress s : FInv s -> cph s = CRunning ->
  match run_turn s with
  | (s1, TGo) => FInv s1 /\ cph s1 = CRunning /\ mu s1 + 1 <= mu s
  | (s1, TStop) => Stopped s1
  end.
Proof.
  intros [[W HI] Hne] Hc.
  pose proof (poll_spec (poll_fuel (rd s)) (fr s) (rd s) W HI Hne (poll_fuel_enough _ _)) as Hp. unfold run_turn.
  destruct (fpoll (poll_fuel (rd s)) (fr s) (rd s)) as [[o f] r] eqn:Ef. destruct o as [bs| | | |]; try contradiction.
  - destruct Hp as (W' & HI' & Hne' & _ & Hfr). apply frame1_split in Hfr. destruct Hfr as [Hsplit Hp2].
    assert (Hlen : size (fr s) + total_len (segs (rd s)) = lenN bs + size f + total_len (segs r)).
    { destruct HI as (k & _ & HlW & _). destruct HI' as (k' & _ & HlW' & _).
      apply (f_equal lenN) in Hsplit. rewrite !lenN_app in Hsplit. unfold avail in Hsplit. rewrite !lenN_concat_total in Hsplit.
      unfold total_len. lia. }
    destruct (dec_packet bs) as [p| |]; try (unfold Stopped, exit_run; cbn; exact I).
    pose proof (io_handle_packet (set_io s r f) p) as Hio. pose proof (cq_handle_packet (set_io s r f) p) as Hcq.
    destruct (handle_packet (set_io s r f) p) as [s1 a]. cbn [fst] in Hio, Hcq.
    unfold io in Hio. inversion Hio as [[H1 H2 H3]]. unfold cq in Hcq. inversion Hcq as [[H4 H5]].
    destruct a; [|unfold Stopped, exit_run; cbn; exact I].
    split; [split; [exists W'; rewrite H2; exact HI'|rewrite H1; exact Hne']|]. split; [rewrite H4; exact Hc|].
    unfold mu. rewrite H1, H2, H5. cbn [rd fr msgq set_io]. lia.
  - destruct Hp as (HI' & Hst & Hsegs & Hnend & _).
    destruct (msgq (set_io s r f)) as [|m q] eqn:Eq.
    + destruct (live_senders (set_io s r f) =? 0) eqn:El; [unfold Stopped, exit_run; cbn; exact I|].
      unfold Stopped. cbn [cph set_io]. rewrite Hc. split; [exact Eq|]. split; [apply N.eqb_neq; exact El|].
      exists (poll_fuel (rd s)), (fr s), (rd s). exact Ef.
    + pose proof (io_handle_message (set_msgq (set_io s r f) q) m) as Hio. pose proof (cq_handle_message (set_msgq (set_io s r f) q) m) as Hcq.
      destruct (handle_message (set_msgq (set_io s r f) q) m) as [s1 a]. cbn [fst] in Hio, Hcq.
      unfold io in Hio. inversion Hio as [[H1 H2 H3]]. unfold cq in Hcq. inversion Hcq as [[H4 H5]].
      destruct a; [|unfold Stopped, exit_run; cbn; exact I].
      split; [split; [exists (W ++ avail (rd s)); rewrite H2; exact HI'|rewrite H1; cbn [rd set_msgq set_io]; unfold nonempty_segs; rewrite Hsegs; constructor]|].
      split; [rewrite H4; exact Hc|].
      assert (Hsz : size f = size (fr s) + total_len (segs (rd s))).
      { destruct HI as (k & _ & HlW & _). destruct HI' as (k' & _ & HlW' & _). rewrite <- HlW', lenN_app, HlW.
        unfold avail. rewrite lenN_concat_total. reflexivity. }
      unfold mu. rewrite H1, H2, H5. cbn [rd fr msgq set_io set_msgq]. cbn [msgq set_io] in Eq. rewrite Eq, Hsegs, Hsz, lenN_cons.
      cbn [total_len fold_right]. lia.
  - unfold Stopped, exit_run; cbn; exact I.
Qed.

Lemma settle_loop_stops fuel : forall s, FInv s -> cph s = CRunning -> mu s < N.of_nat fuel -> Stopped (settle_loop fuel s).
Proof.
  induction fuel as [|fuel IH]; intros s HF Hc Hm; [lia|]. cbn [settle_loop]. rewrite Hc.
  pose proof (run_turn_progress s HF Hc) as Hp. destruct (run_turn s) as [s1 t]. destruct t; [exact Hp|].
  destruct Hp as (HF1 & Hc1 & Hm1). apply IH; [exact HF1|exact Hc1|lia].
Qed.

Lemma conn_turn_stops s : cph s = CConnecting -> Stopped (conn_turn s).
Proof.
  intros Hc. unfold conn_turn. destruct (fpoll (poll_fuel (rd s)) (fr s) (rd s)) as [[o f] r] eqn:Ef.
  destruct o as [bs| | | |]; try (unfold Stopped; cbn; exact I).
  - destruct (dec_packet bs) as [p| |]; try (unfold Stopped; cbn; exact I). destruct (rk p); unfold Stopped; cbn; exact I.
  - unfold Stopped. cbn [cph set_io]. rewrite Hc. exists (poll_fuel (rd s)), (fr s), (rd s). exact Ef.
Qed.

Lemma settle_fuel_S s : exists k, settle_fuel s = S k.
Proof. unfold settle_fuel. exists (N.to_nat (lenN (msgq s) + total_len (segs (rd s)) + lenN (zd (buf (fr s))) + 3)). lia. Qed.

(* the fuel of settle is adequate: the loop always ends because the task stopped, never because the fuel ran out *)
Theorem settle_loop_adequate s : FInv s -> SZs s -> Stopped (settle_loop (settle_fuel s) s).
Proof.
  intros HF Hs. destruct (cph s) eqn:Ec.
  - destruct (settle_fuel_S s) as [k ->]. cbn [settle_loop]. rewrite Ec. unfold Stopped. rewrite Ec. exact I.
  - destruct (settle_fuel_S s) as [k ->]. cbn [settle_loop]. rewrite Ec. apply conn_turn_stops. exact Ec.
  - apply settle_loop_stops; [exact HF|exact Ec|]. unfold mu, settle_fuel. unfold SZs, SZ in Hs. lia.
Qed.

(* polling the Context task again right after it stopped has no effect at all *)
Theorem settle_idempotent s : FInv s -> SZs s -> settle (settle s) = settle s.
Proof.
  intros HF Hs. destruct (hold s || negb (ctx_alive s)) eqn:E.
  - assert (H1 : settle s = s) by (unfold settle; rewrite E; reflexivity). rewrite H1. exact H1.
  - assert (H1 : settle s = settle_loop (settle_fuel s) s) by (unfold settle; rewrite E; reflexivity). rewrite H1.
    pose proof (settle_loop_adequate s HF Hs) as Hst. set (s' := settle_loop (settle_fuel s) s) in *.
    unfold settle. destruct (hold s' || negb (ctx_alive s')); [reflexivity|]. apply stopped_fix. exact Hst.
Qed.
Theorem settle_stopped s : FInv s -> SZs s -> hold s = false -> ctx_alive s = true -> Stopped (settle s).
Proof. intros HF Hs Hh Ha. unfold settle. rewrite Hh, Ha. cbn [orb negb]. apply settle_loop_adequate; assumption. Qed.

(* ---- SZ over every script event -------------------------------------------------------------------------------------- *)
Lemma start_conn_SZ s pkt sei : SZs s -> SZs (start_conn s pkt sei).
Proof.
  intros Hg. unfold start_conn. cbv zeta. destruct pkt as [b| |]; try exact Hg.
  set (s1 := match sei with Some v => set_c s (with_sei_ts (c s) v (disc_ts (c s))) | None => s end).
  assert (Hg1 : SZs s1) by (subst s1; destruct sei; exact Hg).
  assert (Hg2 : SZs (fst (write s1 b))) by (eapply SZs_io; [apply io_write|exact Hg1]).
  destruct (snd (write s1 b)); [apply settle_SZ|]; exact Hg2.
Qed.
Lemma start_run_SZ s : SZs s -> SZs (start_run s).
Proof.
  intros Hg. unfold start_run. cbv zeta.
  assert (Hg0 : SZs (set_cph s CIdle)) by exact Hg.
  destruct (disc_ts (c (set_cph s CIdle))) as [t|].
  - set (s1 := if session_expired (c (set_cph s CIdle)) t then reset_session (set_cph s CIdle) else set_cph s CIdle).
    assert (Hg1 : SZs s1) by (subst s1; destruct (session_expired _ _); [eapply SZs_io; [apply io_reset_session|exact Hg0]|exact Hg0]).
    set (s2 := set_c s1 (with_sei_ts (c s1) (sei (c s1)) None)).
    assert (Hg2 : SZs s2) by exact Hg1.
    pose proof (io_retransmit (retx (c s2)) s2) as Hr.
    destruct (retransmit s2 (retx (c s2))) as [s3 ok]. cbn [fst] in Hr.
    assert (Hg3 : SZs s3) by (eapply SZs_io; [exact Hr|exact Hg2]).
    destruct ok; [apply settle_SZ|]; exact Hg3.
  - apply settle_SZ. exact Hg0.
Qed.
Lemma spin_one_SZ s i kind ack : SZs s -> SZs (fst (spin_one s i kind ack)).
Proof.
  intros Hg. unfold spin_one. destruct (negb (memN 0 (handles s))); [exact Hg|]. cbv zeta.
  set (s1 := put_op (set_wire s (wbudget s) []) i (mkop (spin_opts kind) NotStarted CEmpty CEmpty 0)).
  assert (Hg1 : SZs s1) by exact Hg.
  pose proof (io_poll_op s1 i) as Hio. destruct (poll_op s1 i) as [s2 o1]. cbn [fst] in Hio.
  assert (Hg2 : SZs (settle s2)) by (apply settle_SZ; eapply SZs_io; [exact Hio|exact Hg1]).
  set (pid := match kind, wire_ev (settle s2) with
             | 1, _ :: _ :: _ :: _ :: _ :: a :: b :: _ | 2, _ :: _ :: _ :: _ :: _ :: a :: b :: _ => Some (a * 256 + b)
             | 3, _ :: _ :: a :: b :: _ | 4, _ :: _ :: a :: b :: _ => Some (a * 256 + b)
             | _, _ => None
             end).
  destruct ack; [|destruct pid; exact Hg2]. destruct pid as [p|]; [|exact Hg2]. cbn [fst].
  eapply SZs_io; [apply io_set_ops|].
  assert (Hfold : forall l s0, SZs s0 ->
     SZs (fold_left (fun s pk =>
               let s := settle (set_io s (mkrd (segs (rd s) ++ [pk]) (r_eof (rd s)) (r_err (rd s))) (fr s)) in
               settle (fst (poll_op s i))) l s0)).
  { induction l as [|pk l IH]; intros s0 Hg0; cbn [fold_left]; [exact Hg0|].
    apply IH. cbv zeta. apply settle_SZ. eapply SZs_io; [apply io_poll_op|]. apply settle_SZ. exact Hg0. }
  apply Hfold. exact Hg2.
Qed.
Lemma spin_SZ fuel : forall s i kind ack, SZs s -> SZs (fst (spin fuel s i kind ack)).
Proof.
  induction fuel as [|fuel IH]; intros s i kind ack Hg; cbn [spin]; [exact Hg|].
  pose proof (spin_one_SZ s i kind ack Hg) as H1. destruct (spin_one s i kind ack) as [s1 o1]. cbn [fst] in H1.
  pose proof (IH s1 (i + 1) kind ack H1) as H2. destruct (spin fuel s1 (i + 1) kind ack) as [s2 o2]. exact H2.
Qed.

Theorem step_SZ s e : SZs s -> SZs (fst (step s e)).
Proof.
  intros Hs. assert (Hg : SZs (begin_ev s)) by exact Hs. unfold step. cbv zeta.
  set (s0 := begin_ev s) in *.
  destruct e; cbn [fst].
  - destruct (negb (ctx_alive s0)); cbn [fst]; [exact Hg|]. apply start_conn_SZ; exact Hg.
  - destruct (negb (ctx_alive s0)); cbn [fst]; [exact Hg|]. apply start_conn_SZ; exact Hg.
  - destruct (negb (ctx_alive s0)); cbn [fst]; [exact Hg|]. apply start_run_SZ; exact Hg.
  - destruct b as [|b0 b]; cbn [fst]; apply settle_SZ; exact Hg.
  - apply settle_SZ. exact Hg.
  - apply settle_SZ. exact Hg.
  - exact Hg.
  - exact Hg.
  - destruct (memN h (handles s0)); cbn [fst]; exact Hg.
  - pose proof (io_poll_op s0 i) as Hio. destruct (poll_op s0 i) as [s1 o]. cbn [fst snd] in *.
    apply settle_SZ. eapply SZs_io; [exact Hio|exact Hg].
  - apply settle_SZ. eapply SZs_io; [apply io_drop_op|exact Hg].
  - destruct (alookup i (streams s0)) as [st|]; [|exact Hg].
    destruct (op_phase_of s0 i) as [[| | |]|]; try exact Hg.
    destruct (st_recv st && negb (st_taken st)); cbn [fst]; exact Hg.
  - pose proof (io_poll_stream s0 j) as Hio. destruct (poll_stream s0 j) as [s1 o]. cbn [fst snd] in *.
    apply settle_SZ. eapply SZs_io; [exact Hio|exact Hg].
  - assert (Hdr : SZs (set_streams (drop_recv s0 j) (aremove j (streams (drop_recv s0 j))))).
    { pose proof (io_drop_recv s0 j) as H. unfold io in H. inversion H as [[H1 H2 H3]]. unfold SZs. cbn [fr set_streams]. rewrite H2. exact Hg. }
    destruct (op_phase_of s0 j) as [[| | |]|]; cbn [fst]; apply settle_SZ; assumption.
  - destruct (memN h (handles s0) && negb (memN h2 (handles s0))); cbn [fst]; exact Hg.
  - apply settle_SZ. exact Hg.
  - destruct (drop_ctx_rd s0) as [H1 [H2 H3]]. unfold SZs. rewrite H2. exact Hg.
  - exact Hg.
  - apply settle_SZ. exact Hg.
  - destruct (ctx_alive s0); cbn [fst]; exact Hg.
  - unfold SZs, SZ. cbn. lia.
  - pose proof (spin_SZ (N.to_nat n) s0 base kind ack Hg) as H1.
    destruct (spin (N.to_nat n) s0 base kind ack) as [s1 o]. cbn [fst snd] in *. exact H1.
Qed.

Lemma SZs_init : SZs sys_init. Proof. unfold SZs, SZ. cbn. lia. Qed.

(* every state reachable by script events: the Context task, run to rest, is at a fixed point *)
Theorem reachable_settled evs : Forall ev_ok evs -> forall s, FInv s -> SZs s ->
  FInv (final_state s evs) /\ SZs (final_state s evs).
Proof.
  induction 1 as [|e evs He Hevs IH]; intros s HF Hs; cbn [final_state]; [auto|].
  apply IH; [apply (step_good s e HF He)|apply step_SZ; exact Hs].
Qed.
Corollary spurious_context_poll evs : Forall ev_ok evs ->
  let s := final_state sys_init evs in settle (settle s) = settle s.
Proof.
  intros H. cbv zeta. destruct (reachable_settled evs H sys_init FInv_init SZs_init) as [HF Hs].
  apply settle_idempotent; assumption.
Qed.

(* ---- a spurious poll as a script event: invisible --------------------------------------------------------------------- *)
Lemma Stopped_begin s : Stopped s -> Stopped (begin_ev s).
Proof. exact (fun H => H). Qed.
Lemma settle_stopped_fix s : Stopped s -> settle s = s.
Proof. intros H. unfold settle. destruct (hold s || negb (ctx_alive s)); [reflexivity|]. apply stopped_fix. exact H. Qed.
Lemma begin_ev_idem s : begin_ev (begin_ev s) = begin_ev s.
Proof. reflexivity. Qed.
Lemma step_begin s e : step (begin_ev s) e = step s e.
Proof. unfold step. rewrite begin_ev_idem. reflexivity. Qed.

(* polling an operation future that waits on an empty oneshot, while the Context task is at rest: the event reports
   Pending, writes nothing, and leaves exactly the state every event starts from - so the rest of the run is the same
   with or without it, wherever it is inserted *)
Theorem spurious_poll_event s i o : Stopped s -> alookup i (ops s) = Some o ->
  (o_phase o = Wait1 /\ o_ch1 o = CEmpty) \/ (o_phase o = Wait2 /\ o_ch2 o = CEmpty) ->
  step s (EPoll i) = (begin_ev s, [OPend i]) /\ forall e, step (fst (step s (EPoll i))) e = step s e.
Proof.
  intros Hst Hl Hw.
  assert (E : step s (EPoll i) = (begin_ev s, [OPend i])).
  { unfold step. cbv zeta. rewrite (spurious_op_poll (begin_ev s) i o Hl Hw).
    rewrite (settle_stopped_fix (begin_ev s) (Stopped_begin s Hst)). reflexivity. }
  split; [exact E|]. intros e. rewrite E. cbn [fst]. apply step_begin.
Qed.
Theorem spurious_stream_event s j st : Stopped s -> alookup j (streams s) = Some st ->
  st_taken st = true -> st_buf st = [] -> st_sender st = true ->
  step s (EPollStream j) = (begin_ev s, [ONone j]) /\ forall e, step (fst (step s (EPollStream j))) e = step s e.
Proof.
  intros Hst Hl H1 H2 H3.
  assert (E : step s (EPollStream j) = (begin_ev s, [ONone j])).
  { unfold step. cbv zeta. rewrite (spurious_stream_poll (begin_ev s) j st Hl H1 H2 H3).
    rewrite (settle_stopped_fix (begin_ev s) (Stopped_begin s Hst)). reflexivity. }
  split; [exact E|]. intros e. rewrite E. cbn [fst]. apply step_begin.
Qed.
(* hence for whole scripts: inserting the spurious poll between any prefix and any suffix changes neither the final
   state nor any later observation *)
Corollary spurious_poll_script s i o rest : Stopped s -> alookup i (ops s) = Some o ->
  (o_phase o = Wait1 /\ o_ch1 o = CEmpty) \/ (o_phase o = Wait2 /\ o_ch2 o = CEmpty) ->
  final_state s (EPoll i :: rest) = final_state (begin_ev s) rest /\
  (forall e rest', rest = e :: rest' -> final_state s (EPoll i :: rest) = final_state s rest).
Proof.
  intros Hst Hl Hw. destruct (spurious_poll_event s i o Hst Hl Hw) as [E Hn]. cbn [final_state]. rewrite E. cbn [fst].
  split; [reflexivity|]. intros e rest' ->. cbn [final_state]. rewrite step_begin. reflexivity.
Qed.
