(* Codec laws: primitive and property round trips (C02), length fields of the encoders (C01). *)
From Poster Require Import Model.Rx Model.Tx Proofs.BytesP Proofs.VarintP.
From Coq Require Import ZArith ZifyN ZifyBool ZifyNat.
Ltac Zify.zify_post_hook ::= Z.div_mod_to_equations.
Arguments N.add : simpl never. Arguments N.mul : simpl never. Arguments N.sub : simpl never.
Arguments N.ltb : simpl never. Arguments N.leb : simpl never. Arguments N.eqb : simpl never.
Arguments N.div : simpl never. Arguments N.modulo : simpl never. Arguments N.min : simpl never.

Lemma vlen0_eq n : Tx.vlen0 n = VarintP.vlen0 n. Proof. reflexivity. Qed.

(* ---- primitives -------------------------------------------------------------------------------- *)
Lemma dec_u16_enc n r : n < 65536 -> dec_u16 (enc_u16 n ++ r) = Ok n.
Proof. intros H. cbn [enc_u16 app dec_u16]. f_equal. lia. Qed.
Lemma dec_u32_enc n r : n < 4294967296 -> dec_u32 (enc_u32 n ++ r) = Ok n.
Proof. intros H. cbn [enc_u32 app dec_u32]. f_equal. lia. Qed.
Lemma dropN_app {A} (a b : list A) : dropN (lenN a) (a ++ b) = b.
Proof. unfold dropN, lenN. rewrite Nat2N.id. rewrite skipn_app, skipn_all, Nat.sub_diag. reflexivity. Qed.
Lemma takeN_app {A} (a b : list A) : takeN (lenN a) (a ++ b) = a.
Proof. unfold takeN, lenN. rewrite Nat2N.id. rewrite firstn_app, firstn_all, Nat.sub_diag. cbn. apply app_nil_r. Qed.
Lemma dec_bin_enc b r : lenN b < 65536 -> dec_bin (enc_bin b ++ r) = Ok b.
Proof.
  intros H. unfold enc_bin. cbn [enc_u16 app dec_bin].
  replace ((lenN b / 256) mod 256 * 256 + lenN b mod 256) with (lenN b) by lia.
  rewrite lenN_app. replace (lenN b <=? lenN b + lenN r) with true by (symmetry; apply N.leb_le; lia).
  rewrite takeN_app. reflexivity.
Qed.
Lemma dec_str_enc b r : lenN b < 65536 -> utf8_valid b = true -> dec_str (enc_bin b ++ r) = Ok b.
Proof. intros H U. unfold dec_str. rewrite dec_bin_enc by exact H. cbn [bind]. rewrite U. reflexivity. Qed.
Lemma enc_bin_len b : lenN (enc_bin b) = lenN b + 2.
Proof. unfold enc_bin. rewrite lenN_app. cbn. lia. Qed.
Lemma dec_pair_enc k v r : lenN k < 65536 -> utf8_valid k = true -> lenN v < 65536 -> utf8_valid v = true ->
  dec_pair (enc_pair (k, v) ++ r) = Ok (k, v).
Proof.
  intros Hk Uk Hv Uv. unfold dec_pair, enc_pair. cbn [fst snd]. rewrite <- app_assoc.
  rewrite dec_str_enc by assumption. cbn [bind].
  unfold blen_bin. rewrite <- enc_bin_len, dropN_app. rewrite dec_str_enc by assumption. reflexivity.
Qed.
Lemma venc_len n : n <= VMAX -> lenN (venc n) = VarintP.vlen0 n.
Proof.
  intros H. unfold venc, VarintP.vlen0, vlen.
  destruct (n <=? 127); [reflexivity|]. destruct (n <=? 16383); [reflexivity|].
  destruct (n <=? 2097151); [reflexivity|]. destruct (n <=? VMAX) eqn:E; [reflexivity|].
  apply N.leb_gt in E. lia.
Qed.
Lemma vlen0_pos n : n <= VMAX -> 1 <= VarintP.vlen0 n <= 4.
Proof.
  intros H. unfold VarintP.vlen0, vlen.
  destruct (n <=? 127); [lia|]. destruct (n <=? 16383); [lia|].
  destruct (n <=? 2097151); [lia|]. destruct (n <=? VMAX) eqn:E; [lia|]. apply N.leb_gt in E. lia.
Qed.
Lemma dec_var_enc n r : n <= VMAX -> dec_var (venc n ++ r) = Ok (n, VarintP.vlen0 n).
Proof. intros H. unfold dec_var. rewrite vdec_venc by exact H. reflexivity. Qed.

(* ---- property values ----------------------------------------------------------------------------- *)
Definition str_ok (b : bytes) : Prop := lenN b < 65536 /\ utf8_valid b = true.
Definition wf_pval (t : ptype) (v : pval) : Prop :=
  match t, v with
  | TBool, VB _ => True
  | TQos, V8 n => n <= 2
  | TU16, V16 n => n < 65536
  | TNzU16, V16 n => 1 <= n < 65536
  | TU32, V32 n => n < 4294967296
  | TNzU32, V32 n => 1 <= n < 4294967296
  | TVar, VV n l => n <= VMAX /\ l = VarintP.vlen0 n
  | TBin, VBin b => lenN b < 65536
  | TStr, VStr b => str_ok b
  | TPair, VPr k v => str_ok k /\ str_ok v
  | _, _ => False
  end.
Definition wf_prop (p : prop) : Prop :=
  match model_ptype (fst p) with Some t => wf_pval t (snd p) | None => False end.

Lemma dec_pval_enc t v r : wf_pval t v -> dec_pval t (enc_pval v ++ r) = Ok v.
Proof.
  destruct t, v; cbn [wf_pval]; try contradiction; intros H; unfold dec_pval, enc_pval.
  - destruct b; reflexivity.
  - unfold enc_u8. cbn [app dec_qos map_res]. replace (n mod 256) with n by lia.
    replace (n <=? 2) with true by (symmetry; apply N.leb_le; exact H). reflexivity.
  - rewrite dec_u16_enc by exact H. reflexivity.
  - rewrite dec_u16_enc by lia. cbn [nonzero bind map_res].
    replace (n =? 0) with false by (symmetry; apply N.eqb_neq; lia). reflexivity.
  - rewrite dec_u32_enc by exact H. reflexivity.
  - rewrite dec_u32_enc by lia. cbn [nonzero bind map_res].
    replace (n =? 0) with false by (symmetry; apply N.eqb_neq; lia). reflexivity.
  - destruct H as [Hn ->]. rewrite dec_var_enc by exact Hn. reflexivity.
  - rewrite dec_bin_enc by exact H. reflexivity.
  - destruct H as [H1 H2]. rewrite dec_str_enc by assumption. reflexivity.
  - destruct H as [[H1 H2] [H3 H4]]. change (enc_pair (k, v)) with (enc_pair (k, v)).
    rewrite dec_pair_enc by assumption. reflexivity.
Qed.
Lemma enc_pval_len t v : wf_pval t v -> lenN (enc_pval v) = blen_pval v.
Proof.
  destruct t, v; cbn [wf_pval]; try contradiction; intros H; unfold enc_pval, blen_pval; try reflexivity.
  - destruct H as [Hn ->]. apply venc_len. exact Hn.
  - apply enc_bin_len.
  - apply enc_bin_len.
  - unfold enc_pair. cbn [fst snd]. rewrite lenN_app, !enc_bin_len. lia.
Qed.

Lemma enc_prop_len p : wf_prop p -> lenN (enc_prop p) = blen_prop p.
Proof.
  unfold wf_prop, enc_prop, blen_prop. destruct (model_ptype (fst p)) as [t|]; [|contradiction].
  intros H. rewrite lenN_cons, (enc_pval_len t) by exact H. lia.
Qed.

(* ---- one property, then any list of properties (any order, repeats) ------------------------------ *)
Lemma try_dec_app {A} (dec : bytes -> res A) blen (e r : bytes) a :
  dec (e ++ r) = Ok a -> blen a = lenN e -> try_dec dec blen (e ++ r) = Ok (a, r).
Proof.
  intros Hd Hl. unfold try_dec. rewrite Hd. cbn [bind]. rewrite Hl, lenN_app.
  replace (lenN e <=? lenN e + lenN r) with true by (symmetry; apply N.leb_le; lia).
  rewrite dropN_app. reflexivity.
Qed.

Lemma dec_prop_inner_enc p r : wf_prop p -> dec_prop_inner (enc_prop p ++ r) = Ok p.
Proof.
  destruct p as [id v]. unfold wf_prop, enc_prop. cbn [fst snd].
  destruct (model_ptype id) as [t|] eqn:Et; [|contradiction]. intros H.
  unfold dec_prop_inner. change ((id :: enc_pval v) ++ r) with ([id] ++ enc_pval v ++ r).
  rewrite (try_dec_app _ _ [id] (enc_pval v ++ r) id eq_refl eq_refl).
  cbn [bind]. rewrite Et.
  rewrite (try_dec_app (dec_pval t) blen_pval (enc_pval v) r v).
  - reflexivity.
  - apply dec_pval_enc. exact H.
  - symmetry. apply (enc_pval_len t). exact H.
Qed.

Lemma dec_props_enc ps : Forall wf_prop ps -> forall fuel r,
  (length ps <= fuel)%nat -> r = [] ->
  dec_props fuel (enc_props ps ++ r) = Ok ps.
Proof.
  induction 1 as [|p ps Hp Hps IH]; intros fuel r Hf ->.
  - cbn. destruct fuel; reflexivity.
  - destruct fuel as [|fuel]; [cbn in Hf; lia|].
    unfold enc_props. cbn [map concat]. rewrite app_nil_r.
    assert (Hne : exists b bs, enc_prop p ++ concat (map enc_prop ps) = b :: bs).
    { unfold enc_prop. cbn [app]. eauto. }
    destruct Hne as [b [bs Hb]]. cbn [dec_props]. rewrite Hb. rewrite <- Hb.
    rewrite (try_dec_app dec_prop_inner blen_prop (enc_prop p) _ p).
    + cbn [bind]. specialize (IH fuel [] ltac:(cbn in Hf; lia) eq_refl).
      rewrite app_nil_r in IH. unfold enc_props in IH. rewrite IH. reflexivity.
    + apply dec_prop_inner_enc. exact Hp.
    + symmetry. apply enc_prop_len. exact Hp.
Qed.

Lemma enc_prop_nonempty p : (1 <= length (enc_prop p))%nat.
Proof. unfold enc_prop. cbn. lia. Qed.
Lemma enc_props_length ps : (length ps <= length (enc_props ps))%nat.
Proof.
  induction ps as [|p ps IH]; [cbn; lia|]. unfold enc_props in *. cbn [map concat].
  rewrite app_length. pose proof (enc_prop_nonempty p). cbn [length]. lia.
Qed.

(* C02_props: every list of well-formed properties - any identifiers of the table, in any order,
   with any repetitions - decodes to exactly that list *)
Theorem props_roundtrip ps : Forall wf_prop ps -> dec_props_all (enc_props ps) = Ok ps.
Proof.
  intros H. unfold dec_props_all. rewrite <- (app_nil_r (enc_props ps)) at 2.
  apply dec_props_enc; [exact H| |reflexivity]. apply enc_props_length.
Qed.

(* the length the encoders announce for a property section is the length of its bytes *)
Lemma enc_props_len ps : Forall wf_prop ps -> lenN (enc_props ps) = blen_props ps.
Proof.
  induction 1 as [|p ps Hp Hps IH]; [reflexivity|].
  unfold enc_props in *. cbn [map concat blen_props fold_right]. rewrite lenN_app, IH, enc_prop_len by exact Hp.
  reflexivity.
Qed.

(* ---- C01: the length fields of every client packet ------------------------------------------------- *)
Definition wf_fld (f : fld) : Prop :=
  match f with FProps ps => Forall wf_prop ps | _ => True end.

Lemma vlen_some n l : vlen n = Some l -> n <= VMAX.
Proof.
  unfold vlen. destruct (n <=? 127) eqn:E1; [apply N.leb_le in E1; unfold VMAX; lia|].
  destruct (n <=? 16383) eqn:E2; [apply N.leb_le in E2; unfold VMAX; lia|].
  destruct (n <=? 2097151) eqn:E3; [apply N.leb_le in E3; unfold VMAX; lia|].
  destruct (n <=? VMAX) eqn:E4; [apply N.leb_le in E4; intros _; exact E4|discriminate].
Qed.

Lemma enc_fld_len f b : wf_fld f -> enc_fld f = Ok b -> lenN b = blen_fld f.
Proof.
  destruct f as [n|n|bb|bb|ps]; cbn [wf_fld enc_fld blen_fld]; intros Hw H.
  - inversion H. reflexivity.
  - inversion H. reflexivity.
  - inversion H. apply enc_bin_len.
  - inversion H. reflexivity.
  - unfold venc_checked in H. destruct (vlen (blen_props ps)) as [l|] eqn:El; [|discriminate].
    cbn [bind] in H. inversion H; subst. rewrite lenN_app, enc_props_len by exact Hw.
    pose proof (vlen_some _ _ El) as Hm.
    rewrite venc_len by exact Hm. unfold Tx.vlen0, VarintP.vlen0. reflexivity.
Qed.
Lemma enc_flds_len fs : Forall wf_fld fs -> forall b, enc_flds fs = Ok b -> lenN b = blen_flds fs.
Proof.
  induction 1 as [|f fs Hf Hfs IH]; intros b H; cbn [enc_flds blen_flds fold_right] in *.
  - inversion H. reflexivity.
  - destruct (enc_fld f) as [a| |] eqn:Ea; try discriminate. cbn [bind] in H.
    destruct (enc_flds fs) as [b'| |] eqn:Eb; try discriminate. cbn [bind] in H. inversion H; subst.
    rewrite lenN_app, (enc_fld_len f a Hf Ea), (IH b' eq_refl). reflexivity.
Qed.
(* every packet the encoders produce: one header byte, then a remaining-length field that
   decodes (with the library-independent reading of a variable byte integer proved in VarintP:
   vdec_venc) to exactly the number of bytes that follow, and nothing after them *)
Theorem enc_packet_framed hdr fs b : Forall wf_fld fs -> enc_packet hdr fs = Ok b ->
  exists body, b = hdr :: venc (lenN body) ++ body /\ lenN body = blen_flds fs /\ lenN body <= VMAX /\ enc_flds fs = Ok body /\
  forall rest, vdec (venc (lenN body) ++ body ++ rest) = VOk (lenN body) (VarintP.vlen0 (lenN body)).
Proof.
  intros Hw H. unfold enc_packet, venc_checked in H.
  destruct (vlen (blen_flds fs)) as [l|] eqn:El; [|discriminate]. cbn [bind] in H.
  destruct (enc_flds fs) as [body| |] eqn:Eb; try discriminate. cbn [bind] in H. inversion H; subst.
  pose proof (enc_flds_len fs Hw body Eb) as Hl. pose proof (vlen_some _ _ El) as Hm.
  exists body. rewrite Hl. repeat split; try reflexivity; try assumption.
  intros rest. apply vdec_venc. exact Hm.
Qed.
(* each property section: its length field decodes to the length of the properties that follow *)
Theorem enc_props_framed ps b : Forall wf_prop ps -> enc_fld (FProps ps) = Ok b ->
  b = venc (lenN (enc_props ps)) ++ enc_props ps /\ lenN (enc_props ps) <= VMAX /\ dec_props_all (enc_props ps) = Ok ps.
Proof.
  intros Hw H. cbn [enc_fld] in H. unfold venc_checked in H.
  destruct (vlen (blen_props ps)) as [l|] eqn:El; [|discriminate]. cbn [bind] in H. inversion H; subst.
  rewrite enc_props_len by exact Hw. split; [reflexivity|]. split; [exact (vlen_some _ _ El)|].
  apply props_roundtrip. exact Hw.
Qed.

(* the encoders never return Err by themselves: only the builders' validation refuses a request *)
Lemma enc_flds_not_err fs : enc_flds fs <> Err.
Proof.
  induction fs as [|f fs IH]; cbn [enc_flds]; [discriminate|].
  destruct f; cbn [enc_fld bind]; try (destruct (enc_flds fs); [discriminate|contradiction|discriminate]).
  unfold venc_checked. destruct (vlen _); cbn [bind]; [|discriminate].
  destruct (enc_flds fs); [discriminate|contradiction|discriminate].
Qed.
Lemma enc_packet_not_err hdr fs : enc_packet hdr fs <> Err.
Proof.
  unfold enc_packet, venc_checked. destruct (vlen _); cbn [bind]; [|discriminate].
  pose proof (enc_flds_not_err fs). destruct (enc_flds fs); [discriminate|contradiction|discriminate].
Qed.
