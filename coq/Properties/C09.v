(* C09 - an inbound QoS 2 message is delivered to the application exactly once. *)
From Poster Require Import Model.Client Proofs.ClientP Proofs.HandshakeP Proofs.StreamP Proofs.IndepP.

(* a re-delivery - the identifier was answered with PUBREC and its PUBREL has not arrived: PUBREC
   is written again, no stream receives anything, the awaited set is unchanged *)
Theorem C09_redelivery : forall (s : sys) (p : rxpkt),
  rk p = KPublish -> r_qos p = 2 -> memN (r_pid p) (await_rel (c s)) = true -> wbudget s = None ->
  streams (fst (handle_packet s p)) = streams s /\
  await_rel (c (fst (handle_packet s p))) = await_rel (c s) /\
  wire_ev (fst (handle_packet s p)) = wire_ev s ++ enc_pubrec (r_pid p).
Proof. exact q2_redelivery. Qed.
Print Assumptions C09_redelivery.

(* a new QoS 2 message: its identifier is recorded, it is dispatched once, PUBREC is written *)
Theorem C09_new_message : forall (s : sys) (p : rxpkt),
  rk p = KPublish -> r_qos p = 2 -> memN (r_pid p) (await_rel (c s)) = false -> wbudget s = None ->
  let s1 := set_c s (with_rel (c s) (await_rel (c s) ++ [r_pid p])) in
  streams (fst (handle_packet s p)) =
    streams (match pub_subid p with Some sid => dispatch s1 sid p | None => s1 end) /\
  await_rel (c (fst (handle_packet s p))) = await_rel (c s) ++ [r_pid p] /\
  wire_ev (fst (handle_packet s p)) = wire_ev s ++ enc_pubrec (r_pid p).
Proof. exact q2_new. Qed.
Print Assumptions C09_new_message.

(* PUBREL releases the identifier (a later PUBLISH reusing it is a new message) and is answered
   with PUBCOMP; no stream changes *)
Theorem C09_release : forall (s : sys) (p : rxpkt), rk p = KPubrel -> wbudget s = None ->
  await_rel (c (fst (handle_packet s p))) = filter (fun i => negb (i =? r_pid p)) (await_rel (c s)) /\
  streams (fst (handle_packet s p)) = streams s /\
  wire_ev (fst (handle_packet s p)) = wire_ev s ++ enc_pubcomp (r_pid p).
Proof. exact q2_release. Qed.
Print Assumptions C09_release.

(* ---- every sequence of deliveries, re-deliveries and releases --------------------------------------------
   The set of identifiers awaiting PUBREL evolves exactly as the property says (spec_aw_step: a new QoS 2
   PUBLISH adds its identifier, a PUBREL removes it, nothing else touches it), and the stream receives a QoS 2
   PUBLISH iff its identifier is NOT awaiting release at that moment (spec_deliveries).  Hence each distinct
   message - a PUBLISH up to the PUBREL of its identifier - reaches the stream exactly once, and a PUBLISH
   reusing the identifier after the PUBREL is a new message. *)
Theorem C09_exactly_once : forall (ps : list rxpkt) (s : sys) (sid j : N) (st : strm),
  stream_state s sid j st -> sub_inj s sid j -> wbudget s = None ->
  let s' := take_packets s ps in
  stream_state s' sid j (mkst (st_buf st ++ spec_deliveries (await_rel (c s)) sid ps) (st_sender st) true (st_taken st)) /\
  await_rel (c s') = fold_left spec_aw_step ps (await_rel (c s)).
Proof. exact stream_history. Qed.
Print Assumptions C09_exactly_once.

(* what the specification says on the property's own scenario: deliver, re-deliver (DUP), release, reuse *)
Example C09_spec_scenario :
  let pk dup pl := mkrx KPublish false dup false 2 7 0 [(11, VV 1 1)] [116] pl [] in
  let rel := mkrx KPubrel false false false 0 7 0 [] [] [] [] in
  spec_deliveries [] 1 [pk false [65]; pk true [65]; pk true [65]; rel; pk false [66]; pk true [66]] = [pk false [65]; pk false [66]].
Proof. vm_compute. reflexivity. Qed.

(* ---- what does NOT touch the identifiers awaiting PUBREL (Proofs/IndepP.v) -------------------------------------------------
   The two directions number their exchanges independently: an acknowledgement of one of the client's own operations
   (PUBACK, PUBREC, PUBCOMP, SUBACK, UNSUBACK, PINGRESP), whatever identifier it bears, leaves them alone; so does every
   request of the application; so does a CONNACK, accepted or refused (only an expired session is forgotten, C17_expired). *)
Theorem C09_own_exchanges_apart : forall (s : sys) (p : rxpkt),
  match rk p with KPublish | KPubrel => False | _ => True end ->
  await_rel (c (fst (handle_packet s p))) = await_rel (c s).
Proof. exact outbound_acks_keep_await_rel. Qed.
Print Assumptions C09_own_exchanges_apart.
Theorem C09_requests_apart : forall (s : sys) (m : cmsg), await_rel (c (fst (handle_message s m))) = await_rel (c s).
Proof. exact message_keeps_await_rel. Qed.
Print Assumptions C09_requests_apart.
Theorem C09_survives_connack : forall (x : ctx) (p : rxpkt), await_rel (handle_connack x p) = await_rel x.
Proof. intros x p. exact (proj1 (proj2 (proj2 (proj2 (connack_keeps_session x p))))). Qed.
Print Assumptions C09_survives_connack.
