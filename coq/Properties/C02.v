(* C02 - well-formed inbound packets decode to exactly the values the server sent. *)
From Poster Require Import Model.Rx Proofs.VarintP Proofs.CodecP.

(* every list of well-formed properties - any identifiers of the MQTT 5 table, any order, any
   repetition (user properties) - decodes to exactly that list *)
Theorem C02_props : forall ps, Forall wf_prop ps -> dec_props_all (enc_props ps) = Ok ps.
Proof. exact props_roundtrip. Qed.
Print Assumptions C02_props.

(* every property value of every type round-trips, whatever follows it *)
Theorem C02_value : forall t v r, wf_pval t v -> dec_pval t (enc_pval v ++ r) = Ok v.
Proof. exact dec_pval_enc. Qed.
Print Assumptions C02_value.

(* variable byte integers: every value up to 268435455 *)
Theorem C02_varint : forall n rest, n <= VMAX -> vdec (venc n ++ rest) = VOk n (VarintP.vlen0 n).
Proof. exact vdec_venc. Qed.
Print Assumptions C02_varint.

Example C02_nonvacuous :
  Forall wf_prop [(38, VPr [107] [118]); (17, V32 4294967295); (33, V16 1); (38, VPr [] []); (11, VV 268435455 4)].
Proof. repeat (apply Forall_cons; [unfold wf_prop, wf_pval, str_ok; cbn; repeat split; try reflexivity; try lia|]). apply Forall_nil. Qed.
