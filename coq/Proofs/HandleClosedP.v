(* C13: HandleClosed is reported once every handle is gone, and not before. Of the documented causes of run() returning only
   one yields HandleClosed: the transport has nothing, the request queue is empty and NO sender of the request channel is left -
   no handle clone and no operation future holding one. (Seeded defect C13-10A closed the channel when the first clone was
   dropped.) *)
From Poster Require Import Model.Client Proofs.BytesP Proofs.ClientP Proofs.RunP.
From Coq Require Import Lia.

Theorem handle_closed_cause s r : run_exit_cause s r -> r = RunHandleClosed ->
  live_senders s = 0 /\ msgq s = [] /\ exists f rd', fpoll (poll_fuel (rd s)) (fr s) (rd s) = (FPending, f, rd').
Proof.
  intros H E. destruct H as [bs f r0 p H1 H2 H3|bs f r0 p H1 H2 H3|bs f r0 H1 H2|f r0 H1|f r0 i pkt q H1 H2 H3|f r0 H1 H2 H3|];
    try discriminate E.
  - destruct (r_reason p =? 0); discriminate E.
  - split; [exact H3|]. split; [exact H2|]. exists f, r0. exact H1.
Qed.

Theorem handle_closed_only_when_none_left s s' : wbudget s = None -> run_turn s = (s', TStop) ->
  tail_ev s' = tail_ev s ++ [ORun RunHandleClosed] -> live_senders s = 0 /\ msgq s = [].
Proof.
  intros Hb Ht Htail. destruct (run_turn_exit s s' Hb Ht) as [Hsame|(r & Hr & Hc)].
  - rewrite Hsame in Htail. exfalso. assert (L : length (tail_ev s) = length (tail_ev s ++ [ORun RunHandleClosed])) by (rewrite <- Htail; reflexivity).
    rewrite app_length in L. cbn [length] in L. lia.
  - rewrite Hr in Htail. apply app_inv_head in Htail. inversion Htail as [E]. destruct (handle_closed_cause s r Hc E) as (A & B & _). split; assumption.
Qed.
