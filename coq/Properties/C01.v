(* C01 - every packet written is well-formed MQTT 5 and carries the caller's options. *)
From Poster Require Import Model.Tx Model.Rx Spec.MqttTx Proofs.VarintP Proofs.CodecP Proofs.RxSpecP Proofs.TxSpecP.

(* a request is refused (Err, nothing encoded, nothing written) exactly when a mandatory part is
   missing: no topic; no topic filter; authentication data without a method; extended
   authentication without both method and data *)
Theorem C01_refused_publish : forall o pid, enc_publish o pid = Err <-> po_topic o = None.
Proof.
  intros o pid. unfold enc_publish. destruct (po_topic o) as [t|]; split; intros H; try reflexivity; try discriminate.
  exfalso. exact (enc_packet_not_err _ _ H).
Qed.
Print Assumptions C01_refused_publish.
Theorem C01_refused_subscribe : forall o pid sid, vlen sid <> None ->
  (enc_subscribe o pid sid = Err <-> so_filters o = []).
Proof.
  intros o pid sid Hs. unfold enc_subscribe. destruct (so_filters o) as [|f fs]; split; intros H; try reflexivity; try discriminate.
  destruct (vlen sid); [|contradiction]. exfalso. exact (enc_packet_not_err _ _ H).
Qed.
Print Assumptions C01_refused_subscribe.
Theorem C01_refused_unsubscribe : forall o pid, enc_unsubscribe o pid = Err <-> uo_filters o = [].
Proof.
  intros o pid. unfold enc_unsubscribe. destruct (uo_filters o) as [|f fs]; split; intros H; try reflexivity; try discriminate.
  exfalso. exact (enc_packet_not_err _ _ H).
Qed.
Print Assumptions C01_refused_unsubscribe.
Theorem C01_refused_connect : forall o, enc_connect o = Err <-> (co_am o = None /\ co_ad o <> None).
Proof.
  intros o. unfold enc_connect. destruct (co_am o), (co_ad o); cbn; split; intros H; try reflexivity; try discriminate;
    try (exfalso; exact (enc_packet_not_err _ _ H)); try (destruct H; try discriminate; try contradiction).
  split; [reflexivity|discriminate].
Qed.
Print Assumptions C01_refused_connect.
Theorem C01_refused_auth : forall o,
  enc_auth o = Err <-> (auth_shortened o = false /\ (ao_am o = None \/ ao_ad o = None)).
Proof.
  intros o. unfold enc_auth. destruct (auth_shortened o); cbn [negb andb].
  - split; [discriminate|]. intros [H _]. discriminate.
  - destruct (ao_am o), (ao_ad o); cbn; split; intros H; try reflexivity; try discriminate;
      try (exfalso; exact (enc_packet_not_err _ _ H)); try (destruct H as [? [?|?]]; discriminate); auto.
Qed.
Print Assumptions C01_refused_auth.
Theorem C01_disconnect_never_refused : forall o, enc_disconnect o <> Err.
Proof. intros o. apply enc_packet_not_err. Qed.
Print Assumptions C01_disconnect_never_refused.

(* every packet any encoder produces (all go through enc_packet over the field list of the
   packet): header byte, then a remaining-length field - a minimal variable byte integer - that
   decodes to exactly the number of bytes following it; the code's separate length computation
   (blen_flds, the *Tx::remaining_len functions) agrees with what encode() writes *)
Theorem C01_remaining_length : forall hdr fs b, Forall wf_fld fs -> enc_packet hdr fs = Ok b ->
  exists body, b = hdr :: venc (lenN body) ++ body /\ lenN body = blen_flds fs /\ lenN body <= VMAX /\
    enc_flds fs = Ok body /\
    forall rest, vdec (venc (lenN body) ++ body ++ rest) = VOk (lenN body) (VarintP.vlen0 (lenN body)).
Proof. exact enc_packet_framed. Qed.
Print Assumptions C01_remaining_length.

(* every property section: its property-length field equals the size of the properties that
   follow it, and reading those properties back yields exactly the list that was written *)
Theorem C01_property_length : forall ps b, Forall wf_prop ps -> enc_fld (FProps ps) = Ok b ->
  b = venc (lenN (enc_props ps)) ++ enc_props ps /\ lenN (enc_props ps) <= VMAX /\
  dec_props_all (enc_props ps) = Ok ps.
Proof. exact enc_props_framed. Qed.
Print Assumptions C01_property_length.

(* the variable byte integer the encoders write is the minimal encoding and decodes to itself *)
Theorem C01_varint : forall n rest, n <= VMAX -> vdec (venc n ++ rest) = VOk n (VarintP.vlen0 n).
Proof. exact vdec_venc. Qed.
Print Assumptions C01_varint.

(* fixed packets *)
Theorem C01_fixed_packets : forall pid,
  enc_pingreq = [192; 0] /\ enc_pubrel pid = 98 :: 2 :: enc_u16 pid /\ enc_puback pid = 64 :: 2 :: enc_u16 pid /\
  enc_pubrec pid = 80 :: 2 :: enc_u16 pid /\ enc_pubcomp pid = 112 :: 2 :: enc_u16 pid.
Proof. intros pid. repeat split. Qed.
Print Assumptions C01_fixed_packets.

(* subscription options byte: QoS bits 0-1, No Local bit 2, Retain As Published bit 3, Retain
   Handling bits 4-5, bits 6-7 zero *)
Theorem C01_subscription_options : forall f, sf_qos f <= 2 -> sf_rh f <= 2 ->
  sub_options f < 64 /\ sub_options f mod 4 = sf_qos f /\ (sub_options f / 4) mod 2 = b2n (sf_nl f) /\
  (sub_options f / 8) mod 2 = b2n (sf_rap f) /\ sub_options f / 16 = sf_rh f.
Proof.
  intros f Hq Hr. unfold sub_options. destruct (sf_nl f), (sf_rap f); cbn [b2n]; lia.
Qed.
Print Assumptions C01_subscription_options.

(* ---- each packet IS the packet the standard prescribes for the caller's options ---------------------
   Spec/MqttTx.v and Spec/Mqtt.v give, from the standard, the bytes of each client packet as a function of
   its abstract content.  Whenever an encoder of the code succeeds, what it writes equals the standard's
   packet for exactly the options the caller supplied (abs_* map the option records field by field; the
   *_props_view theorems below say what the property lists contain).  No well-formedness hypothesis
   is needed beyond the field sizes a two-byte length can express. *)
Theorem C01_connect : forall o b, will_consistent o -> connect_sizes_ok o -> enc_connect o = Ok b ->
  b = spec_connect (abs_connect o).
Proof. exact enc_connect_spec. Qed.
Print Assumptions C01_connect.
(* connect flags: bit 7 user name, 6 password, 5 will retain, 4-3 will QoS, 2 will flag, 1 clean start, 0 zero *)
Theorem C01_connect_flags : forall o, will_consistent o ->
  connect_flags o mod 256 = spec_connect_flags (abs_connect o).
Proof. exact connect_flags_spec. Qed.
Print Assumptions C01_connect_flags.

Theorem C01_publish : forall o pid b t, po_topic o = Some t -> po_qos o <= 2 -> lenN t < 65536 -> pid < 65536 ->
  enc_publish o pid = Ok b ->
  b = spec_publish false (po_qos o) (po_retain o) t pid (publish_props o)
        (match po_payload o with Some p => p | None => [] end).
Proof. exact enc_publish_spec. Qed.
Print Assumptions C01_publish.
(* ... and decoding it (with the decoder validated against the standard in C02) yields exactly the
   caller's values: DUP = 0, the requested QoS / retain / topic / payload, the assigned identifier *)
Theorem C01_publish_roundtrip : forall o pid b t, po_topic o = Some t -> po_qos o <= 2 -> str_ok t ->
  (po_qos o <> 0 -> 1 <= pid < 65536) -> pid < 65536 -> wf_props publish_ids (publish_props o) ->
  enc_publish o pid = Ok b ->
  dec_packet b = Ok (mkrx KPublish false false (po_retain o) (po_qos o) (if po_qos o =? 0 then 0 else pid) 0
                          (publish_props o) t (match po_payload o with Some p => p | None => [] end) []).
Proof.
  intros o pid b t Ht Hq Hs Hp Hp2 Hw H.
  destruct (enc_publish_spec_len o pid b t Ht Hq (proj1 Hs) Hp2 H) as [-> Hl].
  apply dec_publish_packet; assumption || exact Hl.
Qed.
Print Assumptions C01_publish_roundtrip.

Theorem C01_subscribe : forall o pid subid b, so_filters o <> [] -> Forall filter_ok (so_filters o) -> pid < 65536 ->
  enc_subscribe o pid subid = Ok b ->
  exists l, vlen subid = Some l /\
  b = spec_subscribe pid ((11, VV subid l) :: user_props (so_up o)) (map abs_filter (so_filters o)).
Proof. exact enc_subscribe_spec. Qed.
Print Assumptions C01_subscribe.
Theorem C01_unsubscribe : forall o pid b, uo_filters o <> [] ->
  Forall (fun t : bytes => lenN t < 65536) (uo_filters o) -> pid < 65536 ->
  enc_unsubscribe o pid = Ok b -> b = spec_unsubscribe pid (user_props (uo_up o)) (uo_filters o).
Proof. exact enc_unsubscribe_spec. Qed.
Print Assumptions C01_unsubscribe.
Theorem C01_disconnect : forall o b, do_reason o < 256 -> enc_disconnect o = Ok b ->
  b = spec_disconnect_tx (do_reason o) (disconnect_props o).
Proof. exact enc_disconnect_spec. Qed.
Print Assumptions C01_disconnect.
Theorem C01_auth : forall o b, ao_reason o < 256 -> enc_auth o = Ok b ->
  b = spec_auth_tx (ao_reason o) (auth_props o) (auth_shortened o).
Proof. exact enc_auth_spec. Qed.
Print Assumptions C01_auth.
Theorem C01_fixed_packets_spec : forall pid, pid < 65536 ->
  enc_pingreq = spec_pingreq /\ enc_pubrel pid = spec_ack 98 pid 0 [] AckShort2 /\
  enc_puback pid = spec_ack 64 pid 0 [] AckShort2 /\ enc_pubrec pid = spec_ack 80 pid 0 [] AckShort2 /\
  enc_pubcomp pid = spec_ack 112 pid 0 [] AckShort2.
Proof. exact fixed_packets_spec. Qed.
Print Assumptions C01_fixed_packets_spec.

(* ---- the property sections carry exactly the caller's optional values - each under the identifier the
   standard assigns, user properties in the caller's order - and nothing else --------------------------- *)
Theorem C01_connect_props : forall o, let ps := connect_props o in
  pfirst 17 ps = option_map V32 (co_sei o) /\ pfirst 33 ps = option_map V16 (co_rm o) /\
  pfirst 39 ps = option_map V32 (co_mps o) /\ pfirst 34 ps = option_map V16 (co_tam o) /\
  pfirst 25 ps = option_map VB (co_rri o) /\ pfirst 23 ps = option_map VB (co_rpi o) /\
  pfirst 21 ps = option_map VStr (co_am o) /\ pfirst 22 ps = option_map VBin (co_ad o) /\
  users ps = co_up o /\ (forall p, In p ps -> In (fst p) connect_tx_ids).
Proof. exact connect_props_view. Qed.
Print Assumptions C01_connect_props.
Theorem C01_will_props : forall o, let ps := will_props o in
  pfirst 24 ps = option_map V32 (co_wdi o) /\ pfirst 1 ps = option_map VB (co_wpfi o) /\
  pfirst 2 ps = option_map V32 (co_wmei o) /\ pfirst 3 ps = option_map VStr (co_wct o) /\
  pfirst 8 ps = option_map VStr (co_wrt o) /\ pfirst 9 ps = option_map VBin (co_wcd o) /\
  users ps = co_wup o /\ (forall p, In p ps -> In (fst p) will_ids).
Proof. exact will_props_view. Qed.
Print Assumptions C01_will_props.
Theorem C01_publish_props : forall o, let ps := publish_props o in
  pfirst 1 ps = option_map VB (po_pfi o) /\ pfirst 35 ps = option_map V16 (po_ta o) /\
  pfirst 2 ps = option_map V32 (po_mei o) /\ pfirst 9 ps = option_map VBin (po_cd o) /\
  pfirst 8 ps = option_map VStr (po_rt o) /\ pfirst 3 ps = option_map VStr (po_ct o) /\
  users ps = po_up o /\ (forall p, In p ps -> In (fst p) publish_ids).
Proof. exact publish_props_view. Qed.
Print Assumptions C01_publish_props.
Theorem C01_disconnect_props : forall o, let ps := disconnect_props o in
  pfirst 17 ps = option_map V32 (do_sei o) /\ pfirst 31 ps = option_map VStr (do_rs o) /\
  users ps = do_up o /\ (forall p, In p ps -> In (fst p) [17; 31; 38]).
Proof. exact disconnect_props_view. Qed.
Print Assumptions C01_disconnect_props.
Theorem C01_auth_props : forall o, let ps := auth_props o in
  pfirst 21 ps = option_map VStr (ao_am o) /\ pfirst 22 ps = option_map VBin (ao_ad o) /\
  users ps = ao_up o /\ (forall p, In p ps -> In (fst p) auth_ids).
Proof. exact auth_props_view. Qed.
Print Assumptions C01_auth_props.

Example C01_nonvacuous :
  let o := Build_publish_opts 1 true (Some [97; 47; 98]) (Some [1; 2; 3]) (Some true) None (Some 60) (Some [9]) None
             (Some [116]) [([107], [118])] in
  enc_publish o 7 = Ok (spec_publish false 1 true [97; 47; 98] 7 (publish_props o) [1; 2; 3]) /\
  wf_props publish_ids (publish_props o).
Proof.
  split; [vm_compute; reflexivity|]. split; [|split].
  - repeat (apply Forall_cons; [unfold swf_prop, wf_pval, str_ok; cbn; repeat split; try reflexivity; try lia|]). apply Forall_nil.
  - intros p Hp. cbn in Hp. repeat (destruct Hp as [<-|Hp]; [cbn; tauto|]). destruct Hp.
  - vm_compute. discriminate.
Qed.
