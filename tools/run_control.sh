#!/bin/bash
# run_control.sh <name> [tier]   apply /verif/controls/<name>/patch.diff (a behaviour-preserving rewrite) to /repo, run every check, undo.
# Prints which checks report a violation (each one is a false alarm to be examined). Never leaves /repo modified.
set -u
S=$1; TIER=${2:-quick}; D=/verif/controls/$S
[ -f $D/patch.diff ] || { echo "no such control $S"; exit 2; }
cd /repo; git diff --quiet || { echo "/repo has local modifications; refusing"; exit 2; }
trap 'git -C /repo checkout -q -- . ' EXIT
git apply $D/patch.diff || { echo "$S: patch does not apply"; exit 2; }
cd /verif; mkdir -p work/ctl-$S
# build the harness once (serialised by the cargo lock anyway)
for i in 01 02 03 04 05 06 07 08 09 10 11 12 13 14 15 16 17; do
  ( ./check C$i $TIER > work/ctl-$S/C$i.log 2>&1; echo "C$i $?" >> work/ctl-$S/exit.txt ) &
done
wait
caught=$(grep -l "^VIOLATION" work/ctl-$S/C*.log 2>/dev/null | sed 's|.*/||; s|\.log||' | tr '\n' ' ')
echo "$S: caught by: ${caught:-NONE}"
for f in work/ctl-$S/C*.log; do grep -H "^VIOLATION" $f | head -2; done
python3 - "$S" "$caught" <<'PY'
import json,sys,os
s,caught=sys.argv[1],sys.argv[2].split()
p='/verif/controls/%s/meta.json'%s
m=json.load(open(p)); m['detected_by']=caught; m['ran']="tools/run_control.sh %s (git -C /repo apply; ./check Cxx quick for all 17; git -C /repo checkout -- .)"%s
det={}
for c in caught:
    for l in open('/verif/work/ctl-%s/%s.log'%(s,c)):
        if l.startswith('VIOLATION'):
            r=l.split('replay=')[1].split()[0]
            try:
                d=json.load(open(r)); det[c]={"no_longer_checks":d.get("no_longer_checks"),"message":d.get("message"),"case":d.get("case"), "no_failing_input": 'no-failing-input-found' in l}
            except Exception as e: det[c]={"line":l.strip()}
            break
m['detail']=det
json.dump(m,open(p,'w'),indent=1)
PY
rm -f /verif/evidence/replays/*  # replays of a mutant run are not evidence of the unchanged tree
