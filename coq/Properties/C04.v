(* C04 - no inbound bytes can panic the decoders.  `Panic` is the model's outcome for every Rust
   expression that can panic (unwrap, unreachable!, Bytes::advance past the end, slice index,
   arithmetic overflow with overflow checks on). *)
From Poster Require Import Model.Sim Proofs.VarintP Proofs.RxP Proofs.FramingP Proofs.FramingMainP Proofs.SimInvP Proofs.OwnP Proofs.ByteRangeP Proofs.TypedP.

(* every non-empty byte string (the framing layer never hands over an empty one): the packet
   decoder returns a packet or an error *)
Theorem C04_decode_total : forall bs : bytes, bs <> [] -> dec_packet bs <> Panic.
Proof. exact dec_packet_np. Qed.
Print Assumptions C04_decode_total.

(* the variable byte integer decoder never overflows its u32 accumulator *)
Theorem C04_varint_total : forall bs : bytes, vdec bs <> VPanic.
Proof. exact vdec_no_panic. Qed.
Print Assumptions C04_varint_total.

(* and what it accepts is in range and within the input *)
Theorem C04_varint_range : forall bs : bytes,
  match vdec bs with
  | VOk v l => v <= VMAX /\ 1 <= l /\ l <= lenN bs /\ l <= 4
  | VPanic => False
  | _ => True
  end.
Proof. exact vdec_spec. Qed.
Print Assumptions C04_varint_range.

(* the framing layer: for every buffer state, every transport script and every fuel, a poll never
   panics, and what it hands to the decoder is never empty when the state is well formed *)
Theorem C04_framing_total : forall (fuel : nat) (x : rx) (rd : reader),
  fst (fst (fpoll fuel x rd)) <> FPanic.
Proof. exact fpoll_no_panic. Qed.
Print Assumptions C04_framing_total.

(* the whole client, every history: for every sequence of script events - any bytes delivered in
   any chunking in any phase (connecting, authorising, running), end-of-stream and read errors,
   write faults at any offset, operations started / polled / dropped in any order, context and
   handles dropped, reconnects - no event ever reports a panic of connect()/authorize() or of run(),
   and the framing component stays well formed (so the model's own failure values - empty frame,
   fuel exhausted - are unreachable).  The only hypothesis: CONNECT/AUTH options within MQTT's
   packet size limit (the encoder's unwrap on a length above 268435455 is outside the property). *)
Theorem C04_client_total : forall evs : list event, Forall ev_ok evs ->
  forall j o, In (j, o) (run_script evs) -> o <> ORun RunPanic /\ o <> OConn ConnPanic.
Proof. exact run_script_no_panic. Qed.
Print Assumptions C04_client_total.

(* one event from any state whose framing component is well formed *)
Theorem C04_step : forall (s : sys) (e : event), FInv s -> ev_ok e ->
  FInv (fst (step s e)) /\ no_panic_obs (snd (step s e)).
Proof. exact step_good. Qed.
Print Assumptions C04_step.

(* a framing poll with the run loop's fuel, from a well-formed state: never Panic, never out of fuel,
   and what it hands to the decoder is never empty *)
Theorem C04_framing_good : forall s : sys, FInv s ->
  match fpoll (poll_fuel (rd s)) (fr s) (rd s) with
  | (FItem bs, f, r) => bs <> [] /\ (exists W, Inv f W) /\ nonempty_segs r
  | (FPending, f, r) | (FEnd, f, r) => (exists W, Inv f W) /\ nonempty_segs r
  | _ => False
  end.
Proof. exact fpoll_good. Qed.
Print Assumptions C04_framing_good.

Example C04_nonvacuous :
  Forall ev_ok [EConnect (Build_connect_opts [99] 0 None None None None None None None None [] 0 false false
                            None None None None None None [] None None None None);
                EDeliver [32; 3; 0; 0; 0]; ERun; EDeliver [64; 1; 5]; EDeliver [240; 0]; EEof].
Proof. repeat constructor; vm_compute; discriminate. Qed.

(* the operation futures: in every state a well-formed script reaches (Proofs/TypedP.v: fresh operation
   indices, bytes < 256; any packets - stray, wrong type for a pending identifier, malformed - in any order),
   polling a started operation never reaches an unreachable!() arm of handle.rs *)
Theorem C04_futures_total : forall (evs : list event) (i : N) (o : op), wf_run sys_init evs ->
  let s := final_state sys_init evs in
  alookup i (ops s) = Some o -> o_phase o <> NotStarted -> ~ In (ODone i RPanic) (snd (poll_op s i)).
Proof. exact no_unreachable. Qed.
Print Assumptions C04_futures_total.
(* packet identifiers the client decodes from bytes are u16, so a key (type << 24 | id << 8) never aliases
   another acknowledgement type *)
Theorem C04_decoded_pid_range : forall (bs : bytes) (p : rxpkt), B256 bs -> dec_packet bs = Ok p -> r_pid p < 65536.
Proof. exact dec_packet_pid. Qed.
Print Assumptions C04_decoded_pid_range.
