(* RxPacketStream::poll_next (src/io/packet_stream.rs, after "fix: packet framing ...") over a
   scripted AsyncRead. *)
From Poster Require Export Model.Varint.

Inductive fst8 := Idle | RLen | RData.
Record rx := mkfr { buf : bytes; size : N; pend : N; fstate : fst8 }.   (* pend = packet.end *)
Definition rx_init : rx := mkfr [] 0 0 Idle.

(* the transport: queued segments (each read takes from the head segment only), then an error
   or end-of-stream if scripted, else Pending *)
Record reader := mkrd { segs : list bytes; r_eof : bool; r_err : bool }.
Definition rd_init : reader := mkrd [] false false.
Inductive rr := RGot (d : bytes) | RPending | REnd.

Definition read (cap : N) (rd : reader) : rr * reader :=
  match segs rd with
  | s :: rest =>
    let n := N.min cap (lenN s) in
    (RGot (takeN n s),
     mkrd (if n <? lenN s then dropN n s :: rest else rest) (r_eof rd) (r_err rd))
  | [] => if r_err rd || r_eof rd then (REnd, rd) else (RPending, rd)
  end.

(* BytesMut::resize(n, 0) *)
Definition resize (n : N) (l : bytes) : bytes := takeN n l ++ repeat 0 (N.to_nat (n - lenN l)).
(* poll_read filled buf[size .. size+|d|] *)
Definition fill (at_ : N) (d l : bytes) : bytes := takeN at_ l ++ d ++ dropN (at_ + lenN d) l.

Inductive fout := FItem (p : bytes) | FPending | FEnd | FPanic | FOutOfFuel.

Fixpoint fpoll (fuel : nat) (x : rx) (rd : reader) : fout * rx * reader :=
  match fuel with
  | O => (FOutOfFuel, x, rd)
  | S fuel =>
    match fstate x with
    | Idle =>
      let chunk := if pend x - size x <? 512 then 512 else pend x in   (* saturating_sub *)
      let b := resize (size x + chunk) (buf x) in
      match read chunk rd with
      | (RPending, rd') => (FPending, mkfr b (size x) (pend x) Idle, rd')
      | (REnd, rd') => (FEnd, mkfr b (size x) (pend x) Idle, rd')
      | (RGot d, rd') =>
        if lenN d =? 0 then (FEnd, mkfr b (size x) (pend x) Idle, rd')   (* Ok(0) is EOF *)
        else
          let sz := size x + lenN d in
          fpoll fuel (mkfr (fill (size x) d b) sz (pend x) (if 2 <=? sz then RLen else Idle)) rd'
      end
    | RLen =>
      match vdec (tl (buf x)) with      (* over the whole buffer, zero padding included *)
      | VOk v l => fpoll fuel (mkfr (buf x) (size x) (1 + l + v) RData) rd
      | VInsufficient => fpoll fuel (mkfr (buf x) (size x) (pend x) Idle) rd
      | VBad => (FEnd, x, rd)
      | VPanic => (FPanic, x, rd)
      end
    | RData =>
      if size x <? pend x then fpoll fuel (mkfr (buf x) (size x) (pend x) Idle) rd
      else
        let sz := size x - pend x in
        (FItem (takeN (pend x) (buf x)),
         mkfr (dropN (pend x) (buf x)) sz 0 (if sz =? 0 then Idle else RLen), rd)
    end
  end.

(* enough for any single poll: every read either finishes a segment or takes >= 512 bytes, and
   at most three state changes separate two reads *)
Definition total_len (l : list bytes) : N := fold_right (fun s a => lenN s + a) 0 l.
Definition poll_fuel (rd : reader) : nat :=
  N.to_nat (4 * (lenN (segs rd) + total_len (segs rd) / 512) + 8).
