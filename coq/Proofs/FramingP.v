(* RxPacketStream::poll_next (Model/Framing.v): panic freedom, then the chunking theorem. *)
From Poster Require Import Model.Framing Proofs.BytesP Proofs.VarintP.
From Coq Require Import ZArith ZifyN ZifyBool ZifyNat.
Ltac Zify.zify_post_hook ::= Z.div_mod_to_equations.
Arguments N.add : simpl never. Arguments N.mul : simpl never. Arguments N.sub : simpl never.
Arguments N.ltb : simpl never. Arguments N.leb : simpl never. Arguments N.eqb : simpl never.
Arguments N.min : simpl never.

Lemma fpoll_no_panic fuel : forall x rd, fst (fst (fpoll fuel x rd)) <> FPanic.
Proof.
  induction fuel as [|fuel IH]; intros x rd; cbn [fpoll]; [cbn; discriminate|].
  destruct (fstate x).
  - destruct (read _ rd) as [[d| |] rd']; cbn [fst]; try discriminate.
    destruct (lenN d =? 0); [cbn; discriminate|apply IH].
  - destruct (vdec _) eqn:E; try apply IH; cbn [fst]; try discriminate.
    exfalso. exact (vdec_no_panic _ E).
  - destruct (size x <? pend x); [apply IH|cbn; discriminate].
Qed.

(* ---- Pending is returned only straight after the transport returned Pending ------------------ *)
Definition chunk_of (x : rx) : N := if pend x - size x <? 512 then 512 else pend x.
Definition idle_resized (x0 : rx) : rx :=
  mkfr (zresize (size x0 + chunk_of x0) (buf x0)) (size x0) (pend x0) Idle.

Lemma read_pending cap rd rd' : read cap rd = (RPending, rd') ->
  rd' = rd /\ segs rd = [] /\ r_eof rd = false /\ r_err rd = false.
Proof.
  unfold read. destruct (segs rd) as [|s rest]; [|discriminate].
  destruct (r_err rd) eqn:E1; cbn [orb]; [discriminate|].
  destruct (r_eof rd) eqn:E2; [discriminate|]. intros H. inversion H. auto.
Qed.

Lemma fpoll_pending_shape fuel : forall x rd x' rd',
  fpoll fuel x rd = (FPending, x', rd') ->
  exists x0, x' = idle_resized x0 /\ read (chunk_of x0) rd' = (RPending, rd').
Proof.
  induction fuel as [|fuel IH]; intros x rd x' rd'; cbn [fpoll]; [discriminate|].
  destruct (fstate x).
  - fold (chunk_of x). destruct (read (chunk_of x) rd) as [[d| |] rd1] eqn:Er.
    + destruct (lenN d =? 0); [discriminate|]. apply IH.
    + intros H. inversion H; subst. exists x. split; [reflexivity|].
      destruct (read_pending _ _ _ Er) as [-> _]. exact Er.
    + discriminate.
  - destruct (vdec _); try discriminate; apply IH.
  - destruct (size x <? pend x); [apply IH|discriminate].
Qed.

Theorem fpoll_pending_registered fuel x rd x' rd' :
  fpoll fuel x rd = (FPending, x', rd') ->
  segs rd' = [] /\ r_eof rd' = false /\ r_err rd' = false /\ fstate x' = Idle.
Proof.
  intros H. destruct (fpoll_pending_shape _ _ _ _ _ H) as [x0 [-> Hr]].
  destruct (read_pending _ _ _ Hr) as [_ [H1 [H2 H3]]]. auto.
Qed.

Lemma zresize_idem n b : zresize n (zresize n b) = zresize n b.
Proof.
  unfold zresize. destruct (n <=? lenN (zd b)) eqn:E; cbn [zd zp].
  - apply N.leb_le in E. rewrite lenN_takeN.
    replace (n <=? N.min n (lenN (zd b))) with true by (symmetry; apply N.leb_le; lia).
    f_equal. unfold takeN. rewrite firstn_firstn. f_equal. lia.
  - rewrite E. reflexivity.
Qed.

(* a second (spurious) poll in that situation returns Pending again and leaves the framing state
   exactly as it was *)
Theorem fpoll_pending_idempotent fuel x rd x' rd' :
  fpoll fuel x rd = (FPending, x', rd') ->
  forall n, fpoll (S n) x' rd' = (FPending, x', rd').
Proof.
  intros H n. destruct (fpoll_pending_shape _ _ _ _ _ H) as [x0 [-> Hr]].
  cbn [fpoll idle_resized fstate size pend buf]. fold (chunk_of x0). rewrite Hr.
  unfold idle_resized. rewrite zresize_idem. reflexivity.
Qed.
