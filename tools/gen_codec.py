"""Generators for the codec / framing properties C01-C04."""
import mqtt as M
from gen import generator, case, CONNACK, PRE, hx

LENS = [0, 1, 127, 128, 16383, 16384, 65535]


def rep(n, ch=0x61):
    return "r%dx%02x" % (n, ch) if n else "-"


def utf8_samples():
    return [b"", b"a", "é".encode(), "€".encode(), "\U0001f600".encode(), "a/b+#".encode(), b"\x7f",
            "퟿".encode("utf-8", "surrogatepass") if False else "퟿".encode(), "￿".encode()]


def n_cases(tier, q, t):
    return t if tier == "thorough" else q


def rand_str(rng, maxlen=12):
    alphabet = ["a", "b", "/", "é", "€", "\U0001f600", "0", " "]
    return "".join(rng.choice(alphabet) for _ in range(rng.randint(0, maxlen))).encode()


def rand_ups(rng, key="up"):
    return " ".join("%s=%s:%s" % (key, hx(rand_str(rng, 4)), hx(rand_str(rng, 4))) for _ in range(rng.choice([0, 0, 1, 2, 3])))


# option tables: key -> value generator
def connect_fields(rng):
    return {
        "cid": lambda: hx(rand_str(rng)), "ka": lambda: str(rng.choice([0, 1, 60, 65535])),
        "sei": lambda: str(rng.choice([0, 1, 4294967295])), "rm": lambda: str(rng.choice([1, 10, 65535])),
        "mps": lambda: str(rng.choice([1, 1024, 4294967295])), "tam": lambda: str(rng.choice([0, 5, 65535])),
        "rri": lambda: rng.choice("01"), "rpi": lambda: rng.choice("01"),
        "am": lambda: hx(rand_str(rng, 6)), "ad": lambda: hx(bytes(rng.randrange(256) for _ in range(rng.randint(0, 5)))),
        "up": lambda: "%s:%s" % (hx(rand_str(rng, 4)), hx(rand_str(rng, 4))),
        "cs": lambda: rng.choice("01"),
        "un": lambda: hx(rand_str(rng, 6)), "pw": lambda: hx(bytes(rng.randrange(256) for _ in range(rng.randint(0, 6)))),
    }


def will_fields(rng):
    return {
        "wq": lambda: rng.choice("012"), "wr": lambda: rng.choice("01"),
        "wdi": lambda: str(rng.choice([0, 30, 4294967295])), "wpfi": lambda: rng.choice("01"),
        "wmei": lambda: str(rng.choice([0, 7, 4294967295])), "wct": lambda: hx(rand_str(rng, 5)),
        "wrt": lambda: hx(rand_str(rng, 5)), "wcd": lambda: hx(bytes(rng.randrange(256) for _ in range(rng.randint(0, 4)))),
        "wup": lambda: "%s:%s" % (hx(rand_str(rng, 3)), hx(rand_str(rng, 3))),
    }


def publish_fields(rng):
    return {
        "ret": lambda: rng.choice("01"), "pl": lambda: hx(bytes(rng.randrange(256) for _ in range(rng.randint(0, 9)))),
        "pfi": lambda: rng.choice("01"), "ta": lambda: str(rng.choice([1, 9, 65535])),
        "mei": lambda: str(rng.choice([0, 1, 4294967295])), "cd": lambda: hx(bytes(rng.randrange(256) for _ in range(rng.randint(0, 5)))),
        "rt": lambda: hx(rand_str(rng, 6)), "ct": lambda: hx(rand_str(rng, 6)),
        "up": lambda: "%s:%s" % (hx(rand_str(rng, 4)), hx(rand_str(rng, 4))),
    }


def kvs(d, keys):
    out = []
    for k in keys:
        out.append("%s=%s" % (k, d[k]()))
    return " ".join(out)


@generator("C01", "Options -> real *Opts -> connect/authorize/handle operation against the mock writer: every optional "
           "field alone, pairs, all-on, random subsets; every string/binary at 0,1,127,128,16383,16384,65535; user "
           "properties 0-3; 1-4 filters; every QoS x retain x NL x RAP x RH; integer extremes; every reason; "
           "whole / 1-byte / partial / pending writes; requests missing a mandatory part.",
           ["how a real socket fragments writes is runtime; the mock AsyncWrite accepts per scripted sizes"])
def c01(tier, rng):
    out = []
    n = [0]

    def add(script, tags, **meta):
        wm = n[0] % 4
        pre = {0: "", 1: "wmode 0 1 ; ", 2: "wmode 3 2 5 1 ; ", 3: "wmode 2 7 ; "}[wm]
        out.append(case("t%d" % n[0], pre + script, list(tags) + ["w%d" % wm], **meta))
        n[0] += 1
    cf, wf, pf = connect_fields(rng), will_fields(rng), publish_fields(rng)
    quota_pre = "connect ; deliver %s ; run" % hx(M.connack(0, 0, [(33, 1)]))
    out.append(case("quota0-others", quota_pre + " ; start 0 0 pub q=2 t=61 pl=41 ; poll 0 ; start 1 0 ping ; poll 1 ; start 2 0 unsub f=61 ; poll 2 ; start 3 0 sub f=61:0000 ; poll 3 ; "
                    "start 4 0 pub q=0 t=61 pl=42 ; poll 4 ; deliver %s ; poll 0 ; poll 0 ; start 5 0 ping ; poll 5" % hx(M.pubrec(1)), ["quota0"]))
    out.append(case("pings-outstanding", PRE + " ; clone 0 1 ; start 0 0 ping ; poll 0 ; start 1 1 ping ; poll 1 ; start 2 0 pub q=1 t=61 ; poll 2 ; start 3 0 ping ; poll 3 ; start 4 0 unsub f=61 ; poll 4 ; start 5 1 ping ; poll 5",
                    ["pings-outstanding"]))
    # a will whose payload is empty is still a will; will user properties and CONNECT user properties in every call order
    for extra in ("", "wq=1", "wq=2 wr=1", "wr=1", "wdi=5 wq=1"):
        add(("connect wt=%s wp= %s" % (hx(b"w/t"), extra)).strip(), ["connect", "will", "empty-will-payload"])
    wu = ["wup=%s:%s" % (hx(b"w%d" % k), hx(b"v%d" % k)) for k in range(3)]
    cu = ["up=%s:%s" % (hx(b"c%d" % k), hx(b"x%d" % k)) for k in range(2)]
    for order in ([wu[0], wu[1]], [wu[0], wu[1], wu[2]], [cu[0], wu[0]], [wu[0], cu[0]], [cu[0], wu[0], cu[1], wu[1]], [wu[0], cu[0], wu[1]]):
        add("connect wt=%s wp=%s %s" % (hx(b"w/t"), hx(b"bye"), " ".join(order)), ["connect", "will", "user-property-order"])
    # PUBLISH properties of 128 bytes and more (a two-byte Property Length), options given in both orders
    for q in (0, 1, 2):
        for n_ in (100, 118, 119, 120, 130, 300):
            add(PRE + " ; start 0 0 pub q=%d t=%s pl=%s cd=%s ; poll 0 ; poll 0" % (q, hx(b"t/x"), hx(b"payload"), hx(b"c" * n_)), ["publish", "big-props"])
        add(PRE + " ; start 0 0 pub q=%d t=%s rt=%s pl=%s ; poll 0 ; poll 0" % (q, hx(b"services/set"), hx(b"clients/replies"), hx(b"p")), ["publish", "option-order"])
        add(PRE + " ; start 0 0 pub q=%d rt=%s t=%s pl=%s ; poll 0 ; poll 0" % (q, hx(b"clients/replies"), hx(b"services/set"), hx(b"p")), ["publish", "option-order"])
        add(PRE + " ; start 0 0 pub q=%d ct=%s t=%s rt=%s cd=%s pl=%s ; poll 0 ; poll 0" % (q, hx(b"text/plain"), hx(b"a/b"), hx(b"r/s"), hx(b"id"), hx(b"p")), ["publish", "option-order"])
    # exactly one packet per submitted request, in submission order - also when the caller drops the future between
    # submitting the request (first poll) and the Context getting to it
    reqs = {"pub0": "pub q=0 t=61 pl=30", "pub1": "pub q=1 t=61 pl=31", "sub": "sub f=61:1000", "unsub": "unsub f=61", "ping": "ping",
            "disc": "disc"}
    for dropped in reqs:
        others = [k for k in reqs if k != "disc"]
        evs = ["hold"]
        for j, k in enumerate(others[:2]):
            evs += ["start %d 0 %s" % (j, reqs[k]), "poll %d" % j]
        evs += ["start 7 0 %s" % reqs[dropped], "poll 7", "dropop 7"]
        for j, k in enumerate(others[2:], 2):
            evs += ["start %d 0 %s" % (j, reqs[k]), "poll %d" % j]
        evs += ["release"] + ["poll %d" % j for j in range(len(others))]
        out.append(case("dropped-queued-%s" % dropped, PRE + " ; " + " ; ".join(evs), ["dropped-queued"]))
    # packets written when a session is resumed are as well formed as first transmissions (PUBLISH with DUP, PUBREL)
    for q1 in (1, 2):
        out.append(case("resume-%d" % q1, "connect sei=1000 ; deliver %s ; run ; start 0 0 pub q=%d t=61 pl=41 ; poll 0 ; start 1 0 pub q=2 t=62 pl=42 ; poll 1 ; "
                        "deliver %s ; poll 1 ; markdisc 5 ; reconnect ; connect sei=1000 ; deliver %s ; run ; poll 0 ; poll 1 ; markdisc 5 ; reconnect ; "
                        "connect sei=1000 ; deliver %s ; run ; poll 0 ; poll 1"
                        % (hx(M.connack()), q1, hx(M.pubrec(2)), hx(M.connack(1)), hx(M.connack(1))), ["resume"]))
    # CONNECT: each field alone, pairs, all
    keys = list(cf)
    for k in keys:
        add("connect " + kvs(cf, [k]), ["connect", "single"])
    for k in wf:
        add("connect wt=%s wp=%s %s" % (hx(b"w/t"), hx(b"bye"), kvs(wf, [k])), ["connect", "will"])
    import itertools
    pairs = list(itertools.combinations(keys, 2))
    rng.shuffle(pairs)
    for a, b in pairs[:n_cases(tier, 30, len(pairs))]:
        add("connect " + kvs(cf, [a, b]), ["connect", "pair"])
    add("connect " + kvs(cf, keys) + " up=61:62 wt=77 wp=01 " + kvs(wf, list(wf)) + " wup=63:64", ["connect", "all"])
    add("connect", ["connect", "none"])
    add("connect ad=0102", ["connect", "refused"], refused=True)
    for _ in range(n_cases(tier, 120, 4000)):
        ks = [k for k in keys if rng.random() < 0.4]
        w = ""
        if rng.random() < 0.4:
            w = " wt=%s wp=%s " % (hx(rand_str(rng, 5)), hx(rand_str(rng, 5))) + kvs(wf, [k for k in wf if rng.random() < 0.4])
        if "ad" in ks and "am" not in ks:
            ks.append("am")
        add("connect " + kvs(cf, ks) + " " + rand_ups(rng) + w, ["connect", "random"])
    # boundary lengths
    for L in LENS if tier == "thorough" else [0, 1, 127, 128, 16383, 65535]:
        add("connect cid=%s" % rep(L), ["connect", "len%d" % L])
        add("connect un=%s pw=%s" % (rep(L), rep(L, 0)), ["connect", "len%d" % L])
        add("connect am=%s ad=%s up=%s:%s" % (rep(L), rep(L, 1), rep(L // 2 + 1), rep(L // 2)), ["connect", "len%d" % L])
        add("connect wt=%s wp=%s wct=%s" % (rep(max(L, 1)), rep(L, 2), rep(L)), ["connect", "will", "len%d" % L])
    # AUTH (after an AUTH challenge)
    auth_pre = "connect am=6d ad=01 ; deliver %s ; " % hx(M.auth(24, [(21, b"m")]))
    for r in (0, 24, 25):
        add(auth_pre + "auth r=%d am=6d ad=0203" % r, ["auth"])
        add(auth_pre + "auth r=%d am=%s ad=%s up=6b:76 up=6b:77" % (r, hx("mé".encode()), rep(200, 7)), ["auth"])
    add(auth_pre + "auth", ["auth", "short"])
    add(auth_pre + "auth r=24", ["auth", "refused"], refused=True)
    add(auth_pre + "auth am=6d", ["auth", "refused"], refused=True)
    add(auth_pre + "auth ad=01", ["auth", "refused"], refused=True)
    add(auth_pre + "auth up=61:62", ["auth", "refused"], refused=True)
    # PUBLISH
    for q in (0, 1, 2):
        for ret in "01":
            add(PRE + " ; start 0 0 pub q=%d ret=%s t=%s pl=%s ; poll 0" % (q, ret, hx(b"a/b"), hx(b"xyz")), ["publish", "q%d" % q])
        for k in pf:
            add(PRE + " ; start 0 0 pub q=%d t=74 %s ; poll 0" % (q, kvs(pf, [k])), ["publish", "single"])
        add(PRE + " ; start 0 0 pub q=%d pl=00 ; poll 0" % q, ["publish", "refused"], refused=True)
    for _ in range(n_cases(tier, 100, 4000)):
        ks = [k for k in pf if rng.random() < 0.4]
        add(PRE + " ; start 0 0 pub q=%d t=%s %s %s ; poll 0" % (rng.choice([0, 1, 2]), hx(rand_str(rng, 8)), kvs(pf, ks), rand_ups(rng)),
            ["publish", "random"])
    for L in LENS:
        add(PRE + " ; start 0 0 pub q=1 t=%s pl=%s ; poll 0" % (rep(L), rep(L, 0)), ["publish", "len%d" % L])
        add(PRE + " ; start 0 0 pub q=0 t=74 cd=%s rt=%s ct=%s ; poll 0" % (rep(L, 3), rep(L), rep(L)), ["publish", "len%d" % L])
    if tier == "thorough":
        add(PRE + " ; start 0 0 pub q=1 t=74 pl=%s ; poll 0" % rep(2097152, 0x55), ["publish", "2MiB"])
    # SUBSCRIBE
    for q in "012":
        for nl in "01":
            for rap in "01":
                for rh in "012":
                    add(PRE + " ; start 0 0 sub f=%s:%s%s%s%s ; poll 0" % (hx(b"a/#"), q, nl, rap, rh), ["subscribe", "opts"])
    for _ in range(n_cases(tier, 40, 1500)):
        fs = " ".join("f=%s:%s%s%s%s" % (hx(rand_str(rng, 8) or b"x"), rng.choice("012"), rng.choice("01"), rng.choice("01"),
                                        rng.choice("012")) for _ in range(rng.randint(1, 4)))
        add(PRE + " ; start 0 0 sub %s %s ; poll 0" % (fs, rand_ups(rng)), ["subscribe", "random"])
    for L in LENS:
        add(PRE + " ; start 0 0 sub f=%s:2000 ; poll 0" % rep(L), ["subscribe", "len%d" % L])
    add(PRE + " ; start 0 0 sub up=61:62 ; poll 0", ["subscribe", "refused"], refused=True)
    # subscription identifiers crossing the variable byte integer boundaries need many subscribes: 127/128
    add(PRE + " ; spin 126 100 sub 1 ; start 0 0 sub f=61:0000 ; poll 0 ; start 1 0 sub f=62:0000 ; poll 1", ["subscribe", "subid128"])
    # UNSUBSCRIBE
    for _ in range(n_cases(tier, 30, 1000)):
        fs = " ".join("f=%s" % hx(rand_str(rng, 8) or b"x") for _ in range(rng.randint(1, 4)))
        add(PRE + " ; start 0 0 unsub %s %s ; poll 0" % (fs, rand_ups(rng)), ["unsubscribe", "random"])
    for L in LENS:
        add(PRE + " ; start 0 0 unsub f=%s ; poll 0" % rep(L), ["unsubscribe", "len%d" % L])
    add(PRE + " ; start 0 0 unsub ; poll 0", ["unsubscribe", "refused"], refused=True)
    # DISCONNECT, PINGREQ
    from gen_client import DISC_R
    for r in DISC_R:
        add(PRE + " ; start 0 0 disc r=%d ; poll 0" % r, ["disconnect", "reason"])
    for sei in (0, 1, 4294967295):
        add(PRE + " ; start 0 0 disc sei=%d rs=%s up=61:62 up=61:63 ; poll 0" % (sei, hx("bye é".encode())), ["disconnect", "props"])
    for L in LENS:
        add(PRE + " ; start 0 0 disc rs=%s ; poll 0" % rep(L), ["disconnect", "len%d" % L])
    add(PRE + " ; start 0 0 ping ; poll 0 ; start 1 0 ping ; poll 1", ["pingreq"])
    # exact variable-byte-integer boundaries of the REMAINING LENGTH and PROPERTY LENGTH fields themselves
    # (127|128, 16383|16384, 2097151|2097152): sweep the free length so that every packet kind crosses each
    bounds = [127, 128, 16383, 16384] + ([2097151, 2097152] if tier == "thorough" else [])
    for T in bounds:
        for dlt in range(0, 14):
            L = T - dlt
            if L < 0:
                continue
            small = T <= 16384
            add(PRE + " ; start 0 0 pub q=0 t=74 pl=%s ; poll 0" % rep(L, 0x50), ["publish", "rl%d" % T])       # RL = L + 4
            add(PRE + " ; start 0 0 pub q=1 t=74 pl=%s ; poll 0" % rep(L, 0x51), ["publish", "rl%d" % T])       # RL = L + 6
            if L <= 65535:
                add(PRE + " ; start 0 0 pub q=0 t=74 ct=%s ; poll 0" % rep(L), ["publish", "pl%d" % T])         # PL = L + 3
                add(PRE + " ; start 0 0 sub f=%s:1000 ; poll 0" % rep(max(L, 1)), ["subscribe", "rl%d" % T])
                add(PRE + " ; start 0 0 unsub f=%s ; poll 0" % rep(max(L, 1)), ["unsubscribe", "rl%d" % T])
                add(PRE + " ; start 0 0 disc rs=%s ; poll 0" % rep(L), ["disconnect", "pl%d" % T])
                add("connect am=%s" % rep(L), ["connect", "pl%d" % T])
                add("connect cid=%s" % rep(L), ["connect", "rl%d" % T])
                add("connect wt=77 wp=01 wct=%s" % rep(L), ["connect", "will", "pl%d" % T])
    if tier == "thorough":
        # property sections beyond 65535 bytes need several large properties
        for extra in range(0, 8):
            ups = " ".join("up=%s:%s" % (rep(65535, 0x6b), rep(65535, 0x76)) for _ in range(15))
            add(PRE + " ; start 0 0 pub q=0 t=74 %s up=%s:%s ; poll 0" % (ups, rep(65535, 0x6b), rep(65521 - 8 + extra, 0x76)),
                ["publish", "pl2097151"])
    # a user property whose name and value are each within 65535 bytes but together beyond, in every packet that takes one
    for kl, vl in ((65535, 1), (1, 65535), (32768, 32768), (65535, 65535)):
        up = "up=%s:%s" % (rep(kl, 0x6b), rep(vl, 0x76))
        t_ = ["pair%d+%d" % (kl, vl)]
        add("connect " + up, ["connect"] + t_)
        add("connect wt=77 wp=01 w" + up, ["connect", "will"] + t_)
        add(PRE + " ; start 0 0 pub q=1 t=74 pl=70 %s ; poll 0" % up, ["publish"] + t_)
        if (kl, vl) != (65535, 65535) or tier == "thorough":
            add(PRE + " ; start 0 0 sub f=61:2000 %s ; poll 0" % up, ["subscribe"] + t_)
            add(PRE + " ; start 0 0 unsub f=61 %s ; poll 0" % up, ["unsubscribe"] + t_)
            add(PRE + " ; start 0 0 disc r=4 %s ; poll 0" % up, ["disconnect"] + t_)
            add(auth_pre + "auth r=24 am=6d ad=02 " + up, ["auth"] + t_)
    # several packets in submission order under fragmenting writes
    add(PRE + " ; start 0 0 pub q=1 t=61 pl=%s ; start 1 0 sub f=62:1000 ; start 2 0 ping ; hold ; poll 0 ; poll 1 ; poll 2 ; release"
        % rep(700, 9), ["concat"])
    from gen_client import r7
    return out + r7("C01")


# ---- C02 ------------------------------------------------------------------------------------------
CONNACK_PROPS = {17: [0, 1, 4294967295], 33: [1, 65535], 36: [0, 1], 37: [0, 1], 39: [1, 4294967295],
                 18: [b"", b"id", "é".encode()], 34: [0, 65535], 31: [b"", b"reason"], 40: [0, 1], 41: [1],
                 42: [0, 1], 19: [0, 65535], 26: [b"ri"], 28: [b"sr"], 21: [b"m"], 22: [b"", b"\x00\xff"]}
PUBLISH_PROPS = {1: [0, 1], 2: [0, 4294967295], 35: [1, 65535], 8: [b"", b"r/t"], 9: [b"", b"\x00\x01"],
                 3: [b"", "ct é".encode()]}


def rand_user(rng):
    return (38, (rand_str(rng, 4), rand_str(rng, 4)))


def rand_props(rng, table, maxuser=3):
    ps = [(i, rng.choice(v)) for i, v in table.items() if rng.random() < 0.4]
    ps += [rand_user(rng) for _ in range(rng.randint(0, maxuser))]
    rng.shuffle(ps)
    return ps


def sub_prefix():
    """session with a live stream on subscription identifier 1: events 0..6"""
    return PRE + " ; start 0 0 sub f=61:2000 ; poll 0 ; deliver %s ; poll 0 ; tostream 0" % hx(M.suback(1, [2]))


@generator("C02", "Each packet type in the scenario that exposes it (CONNACK/AUTH as first response, acks to an "
           "outstanding operation, PUBLISH to a registered stream, PUBREL via the PUBCOMP written, DISCONNECT as "
           "the result of run()); single properties, pairs, random permutations, boundary lengths, multi-byte UTF-8, "
           "every legal reason code, identifiers 1 / 0xFFFF / 268435455, payloads crossing 512/1024, all short forms.")
def c02(tier, rng):
    from gen_client import DISC_R, CONNACK_R, PUBACK_R
    out = []
    n = [0]

    def add(script, tags, **meta):
        out.append(case("r%d" % n[0], script, tags, **meta))
        n[0] += 1
    # CONNACK
    for r in CONNACK_R:
        add("connect ; deliver " + hx(M.connack(0, r, [(31, b"rs"), (28, b"ref")] if r else [])), ["connack", "reason"])
    add("connect ; deliver " + hx(M.connack(1, 0)), ["connack", "sp"])
    for r in (128, 135, 157):
        for sia in (0, 1):
            add("connect ; deliver " + hx(M.connack(0, r, [(41, sia), (31, b"no"), (38, (b"k", b"1")), (28, b"other"), (38, (b"k", b"2"))])),
                ["connack", "refusal-with-capabilities"])
            add("connect am=6d ad=01 ; deliver %s ; auth r=24 am=6d ad=02 ; deliver %s" % (
                hx(M.auth(24, [(21, b"m")])), hx(M.connack(0, r, [(40, 0), (41, sia), (42, 0), (31, b"no")]))), ["connack", "refusal-with-capabilities", "via-auth"])
    for i, vals in CONNACK_PROPS.items():
        for v in vals:
            add("connect ; deliver " + hx(M.connack(0, 0, [(i, v)])), ["connack", "single"])
    for _ in range(n_cases(tier, 150, 5000)):
        add("connect ; deliver " + hx(M.connack(rng.choice([0, 1]), rng.choice([0, 0, 0, 135]), rand_props(rng, CONNACK_PROPS))),
            ["connack", "random"])
    for L in (127, 128, 16383, 16384, 65535):
        add("connect ; deliver " + hx(M.connack(0, 0, [(18, b"a" * L)])), ["connack", "len%d" % L])
        add("connect ; deliver " + hx(M.connack(0, 0, [(38, (b"k" * (L // 2), b"v" * (L - L // 2)))])), ["connack", "len%d" % L])
    # AUTH as first response
    for r in (0, 24, 25):
        add("connect am=6d ad=01 ; deliver " + hx(M.auth(r, [(21, b"m")])), ["auth"])
        add("connect am=6d ad=01 ; deliver " + hx(M.auth(r, [(22, b"\x01\x02"), (38, (b"a", b"b")), (21, "mé".encode()), (31, b"rs"), (38, (b"a", b"c"))])), ["auth"])
    add("connect am=6d ad=01 ; deliver f000", ["auth", "short"])
    # acks to outstanding operations
    for r in PUBACK_R:
        for form in ("auto", "long", "short3"):
            ps = [(31, b"why"), rand_user(rng)] if form == "long" else []
            add(PRE + " ; start 0 0 pub q=1 t=61 ; poll 0 ; deliver %s ; poll 0" % hx(M.puback(1, r, ps, form)), ["puback", form])
            add(PRE + " ; start 0 0 pub q=2 t=61 ; poll 0 ; deliver %s ; poll 0" % hx(M.pubrec(1, r, ps, form)), ["pubrec", form])
    for r in (0, 146):
        for form in ("auto", "long", "short3"):
            ps = [rand_user(rng), (31, "é".encode()), rand_user(rng)] if form == "long" else []
            add(PRE + " ; start 0 0 pub q=2 t=61 ; poll 0 ; deliver %s ; poll 0 ; deliver %s ; poll 0"
                % (hx(M.pubrec(1)), hx(M.pubcomp(1, r, ps, form))), ["pubcomp", form])
            add(PRE + " ; deliver %s" % hx(M.pubrel(0xffff, r, ps, form)), ["pubrel", form])
    for codes in ([0], [1, 2, 128], [0, 131, 135, 143, 145, 151, 158, 161, 162]):
        add(PRE + " ; start 0 0 sub f=61:2000 ; poll 0 ; deliver %s ; poll 0" % hx(M.suback(1, codes, rand_props(rng, {31: [b"r"]}))), ["suback"])
    for codes in ([0], [17, 128], [0, 17, 128, 131, 135, 143, 145]):
        add(PRE + " ; start 0 0 unsub f=61 ; poll 0 ; deliver %s ; poll 0" % hx(M.unsuback(1, codes, rand_props(rng, {31: [b"r"]}))), ["unsuback"])
    add(PRE + " ; start 0 0 ping ; poll 0 ; deliver d000 ; poll 0", ["pingresp"])
    # identifiers 0xFFFF: reach it with a spin
    add(PRE + " ; spin 65534 100 unsub 1 ; start 0 0 pub q=1 t=61 ; poll 0 ; deliver %s ; poll 0" % hx(M.puback(65535, 16)), ["pid65535"], release=False)
    # PUBLISH to a registered stream
    sp = sub_prefix()
    for q in (0, 1, 2):
        for dup in (0, 1):
            for ret in (0, 1):
                if q == 0 and dup:
                    continue
                add(sp + " ; deliver %s ; pollstream 0" % hx(M.publish(b"a/b", b"pay", q, 7 if q else None, dup, ret, [(11, 1)])), ["publish", "flags"])
    for i, vals in PUBLISH_PROPS.items():
        for v in vals:
            add(sp + " ; deliver %s ; pollstream 0" % hx(M.publish(b"t", b"x", ps=[(i, v), (11, 1)])), ["publish", "single"])
    for _ in range(n_cases(tier, 150, 5000)):
        ps = rand_props(rng, PUBLISH_PROPS) + [(11, 1)]
        rng.shuffle(ps)
        q = rng.choice([0, 1, 2])
        add(sp + " ; deliver %s ; pollstream 0" % hx(M.publish(rand_str(rng, 10), bytes(rng.randrange(256) for _ in range(rng.randint(0, 20))),
                                                         q, rng.choice([1, 255, 256, 65535]) if q else None, 0, rng.choice([0, 1]), ps)),
            ["publish", "random"])
    for L in (0, 1, 100, 500, 510, 511, 512, 513, 1022, 1023, 1024, 1025, 2000, 16384, 70000):
        add(sp + " ; deliver %s ; pollstream 0" % hx(M.publish(b"t", bytes((i * 7) % 256 for i in range(L)), ps=[(11, 1)])), ["publish", "payload%d" % L])
    for L in (127, 128, 16383, 16384, 65535):
        add(sp + " ; deliver %s ; pollstream 0" % hx(M.publish(b"t" * L, b"", ps=[(11, 1), (8, b"r" * L)])), ["publish", "len%d" % L])
    # subscription identifier 268435455 cannot be registered through the API; its decoding is visible as "no delivery, still acknowledged"
    add(sp + " ; deliver %s ; pollstream 0" % hx(M.publish(b"t", b"x", 1, 3, ps=[(11, 268435455)])), ["publish", "subidmax"])
    # DISCONNECT
    for r in DISC_R:
        for form in ("auto", "long"):
            ps = rand_props(rng, {31: [b"", b"bye"], 28: [b"other"]}) if form == "long" else []
            add(PRE + " ; deliver " + hx(M.disconnect(r, ps, form)), ["disconnect", form])
    add(PRE + " ; deliver e000", ["disconnect", "short0"])
    add(PRE + " ; deliver e00100", ["disconnect", "short1"])
    add(PRE + " ; deliver e0020000", ["disconnect", "long-empty"])
    # boundary values that are legal: Message Expiry Interval 0; an empty topic name when a Topic Alias is given
    for q in (0, 1, 2):
        add(sub_prefix() + " ; deliver %s ; pollstream 0" % hx(M.publish(b"t", b"x", q, 9 if q else None, ps=[(2, 0), (11, 1)])), ["publish", "expiry0"])
        add("connect tam=10 ; deliver %s ; run ; start 0 0 sub f=61:2000 ; poll 0 ; deliver %s ; poll 0 ; tostream 0 ; deliver %s ; deliver %s ; pollstream 0 ; pollstream 0"
            % (hx(M.connack()), hx(M.suback(1, [2])), hx(M.publish(b"named/topic", b"first", q, 9 if q else None, ps=[(35, 5), (11, 1)])),
               hx(M.publish(b"", b"second", q, 10 if q else None, ps=[(35, 5), (11, 1)]))), ["publish", "topic-alias"])
    for order in ([(22, b"data"), (21, b"m")], [(31, b"rs"), (22, b"d"), (38, (b"k", b"v")), (21, b"method")], [(21, b"m"), (22, b"data")]):
        add("connect am=6d ad=01 ; deliver " + hx(M.connack(0, 0, order)), ["connack", "auth-order"])
        add("connect am=6d ad=01 ; deliver " + hx(M.connack(0, 135, order)), ["connack", "auth-order"])
        add("connect am=6d ad=01 ; deliver %s ; auth r=24 am=6d ad=02 ; deliver %s" % (hx(M.auth(24, [(21, b"m")])), hx(M.connack(0, 0, order))), ["connack", "auth-order", "via-auth"])
    for L in (520, 1100, 5000):
        big = M.publish(b"t", bytes((i * 3) % 251 for i in range(L)), ps=[(11, 1)])
        add(sub_prefix() + " ; start 9 0 ping ; poll 9 ; deliver %s ; deliver %s ; deliver %s ; pollstream 0 ; pollstream 0 ; poll 9"
            % (hx(big), hx(M.publish(b"t", b"small", ps=[(11, 1)])), hx(M.pingresp())), ["tail2", "pingresp", "after-long"])
    # every legal PUBREL form is taken for what it is: the exchange is over, the next PUBLISH under that identifier is a new message
    for r, form in ((0, "auto"), (0, "short3"), (146, "short3"), (146, "long"), (0, "long")):
        add(sub_prefix() + " ; deliver %s ; deliver %s ; deliver %s ; pollstream 0 ; pollstream 0 ; pollstream 0"
            % (hx(M.publish(b"t", b"first", 2, 7, ps=[(11, 1)])), hx(M.pubrel(7, r, [(31, b"why")] if form == "long" else (), form)),
               hx(M.publish(b"t", b"second", 2, 7, ps=[(11, 1)]))), ["pubrel", "reuse"])
    # the two-byte packets (PINGRESP, DISCONNECT / AUTH with remaining length 0) at the very end of a read that also brought
    # other packets: seen like any other
    for lead in (M.publish(b"t", b"x", ps=[(11, 1)]), M.puback(77), M.suback(77, [0]), M.publish(b"t", b"y" * 600, ps=[(11, 1)])):
        add(sub_prefix() + " ; start 9 0 ping ; poll 9 ; deliver %s ; poll 9 ; pollstream 0" % hx(lead + M.pingresp()), ["tail2", "pingresp"])
        add(sub_prefix() + " ; deliver %s ; pollstream 0" % hx(lead + bytes([0xe0, 0])), ["tail2", "disconnect"])
        add(sub_prefix() + " ; deliver %s ; eof ; pollstream 0" % hx(lead + bytes([0xe0, 0])), ["tail2", "disconnect", "eof"])
    # user properties are a LIST: a name may repeat with other names in between, and the very same name-value pair may
    # repeat; every accessor (iteration, get by name, keys, values, len) reports all of them, in order
    UPL = [[(b"a", b"1"), (b"b", b"2"), (b"a", b"3"), (b"a", b"1")], [(b"k", b"v"), (b"k", b"v")],
           [(b"x", b""), (b"", b"x"), (b"x", b""), (b"y", b"1"), (b"", b"x")], [(b"n", b"1"), (b"m", b"1"), (b"n", b"2"), (b"m", b"2"), (b"n", b"1")]]
    for k_, l_ in enumerate(UPL):
        up = [(38, kv) for kv in l_]
        t_ = ["upsx"]
        add("connect ; deliver " + hx(M.connack(0, 0, up)), t_ + ["connack"])
        add("connect ; deliver " + hx(M.connack(0, 135, up + [(31, b"no")])), t_ + ["connack"])
        add("connect am=6d ad=01 ; deliver " + hx(M.auth(24, [(21, b"m")] + up)), t_ + ["auth"])
        add(PRE + " ; start 0 0 pub q=1 t=61 ; poll 0 ; deliver %s ; poll 0" % hx(M.puback(1, 135, up, "long")), t_ + ["puback"])
        add(PRE + " ; start 0 0 pub q=2 t=61 ; poll 0 ; deliver %s ; poll 0" % hx(M.pubrec(1, 151, up, "long")), t_ + ["pubrec"])
        add(PRE + " ; start 0 0 pub q=2 t=61 ; poll 0 ; deliver %s ; poll 0 ; deliver %s ; poll 0" % (hx(M.pubrec(1)), hx(M.pubcomp(1, 146, up, "long"))), t_ + ["pubcomp"])
        add(PRE + " ; start 0 0 sub f=61:2000 ; poll 0 ; deliver %s ; poll 0" % hx(M.suback(1, [1, 128], up)), t_ + ["suback"])
        add(PRE + " ; start 0 0 unsub f=61 ; poll 0 ; deliver %s ; poll 0" % hx(M.unsuback(1, [17], up)), t_ + ["unsuback"])
        add(sp + " ; deliver %s ; pollstream 0" % hx(M.publish(b"t", b"x", 1, 5, ps=up[:2] + [(11, 1)] + up[2:])), t_ + ["publish"])
        add(PRE + " ; deliver " + hx(M.disconnect(139, up, "long")), t_ + ["disconnect"])
    # DISCONNECT in its one-byte form (reason code, no property length) for every reason
    for r in DISC_R:
        add(PRE + " ; deliver " + hx(bytes([0xe0, 1, r])), ["disconnect", "short1-sweep"])
    # U+FEFF at the start of a string is a character like any other
    bom = "\ufeff".encode()
    add(sp + " ; deliver %s ; pollstream 0" % hx(M.publish(bom + b"topic", b"x", 1, 0x2600, ps=[(11, 1)])), ["publish", "bom"])
    add(sp + " ; deliver %s ; pollstream 0" % hx(M.publish(b"t", b"x", 2, 7, ps=[(3, bom + b"text/plain"), (8, bom + b"reply/to"), (11, 1)])), ["publish", "bom"])
    add(sp + " ; deliver %s ; pollstream 0" % hx(M.publish(b"t" + bom, b"x", 0, None, ps=[(38, (bom + b"k", bom + b"v")), (11, 1)])), ["publish", "bom"])
    add(PRE + " ; start 0 0 pub q=1 t=61 ; poll 0 ; deliver %s ; poll 0" % hx(M.puback(1, 135, [(31, bom + b"why")], "long")), ["puback", "bom"])
    add("connect ; deliver " + hx(M.connack(0, 0, [(18, bom + b"assigned"), (26, bom + b"info"), (28, bom)])), ["connack", "bom"])
    add(PRE + " ; deliver " + hx(M.disconnect(139, [(31, bom + b"bye"), (28, bom + b"other")], "long")), ["disconnect", "bom"])
    # a user property followed by properties whose bytes are not UTF-8 (binary data, large integers, long strings)
    upx = (38, (b"k", b"v"))
    for tail in ([(9, b"\xde\xad\xbe\xef")], [(2, 86400)], [(11, 200)], [(8, b"r" * 130)], [(9, b"\xff"), (38, (b"k2", b"v2")), (2, 4294967295)]):
        add(sp + " ; deliver %s ; pollstream 0" % hx(M.publish(b"t", b"\xff\xfe", 1, 9, ps=[upx, (11, 1)] + [t_ for t_ in tail if t_[0] != 11])), ["publish", "up-not-last"])
    add(PRE + " ; deliver %s" % hx(M.pubrel(7, 0, [upx, (31, b"r" * 130)], "long")), ["pubrel", "up-not-last"])
    add(PRE + " ; start 0 0 pub q=1 t=61 ; poll 0 ; deliver %s ; poll 0" % hx(M.puback(1, 135, [upx, (31, b"r" * 200), upx], "long")), ["puback", "up-not-last"])
    add("connect ; deliver " + hx(M.connack(0, 0, [upx, (22, b"\x80\x81"), (21, b"m"), (39, 2147483648), upx])), ["connack", "up-not-last"])
    # the same packets arriving in two reads, the first one ending inside the fixed header / the remaining-length field
    # (long packets: a two-byte length), and glued behind another packet with the cut one byte into them
    extra = []
    for c in list(out):
        evs = c["script"].split(" ; ")
        if not evs[-1].startswith("deliver "):
            continue
        b_ = M.unhex(evs[-1][8:])
        if len(b_) >= 130 and len(extra) < (60 if tier == "quick" else 600):
            for cut in (1, 2, 3):
                extra.append(case(c["id"] + "-cut%d" % cut, " ; ".join(evs[:-1] + ["deliver " + hx(b_[:cut]), "deliver " + hx(b_[cut:])]), c["tags"] + ["cut"]))
        elif 4 <= len(b_) < 130 and "run" in evs and len(extra) < (120 if tier == "quick" else 900) and int(c["id"][1:]) % 5 == 0:
            glue = M.pingresp() + b_
            extra.append(case(c["id"] + "-glued", " ; ".join(evs[:-1] + ["deliver " + hx(glue[:3]), "deliver " + hx(glue[3:])]), c["tags"] + ["glued"]))
    out += extra
    from gen_client import r8
    return out + r8("C02")


# ---- C03 ------------------------------------------------------------------------------------------
def compositions(n):
    """all ways of cutting a stream of n bytes into consecutive chunks (2^(n-1))"""
    for mask in range(1 << (n - 1)):
        cuts, last = [], 0
        for i in range(n - 1):
            if mask >> i & 1:
                cuts.append((last, i + 1))
                last = i + 1
        cuts.append((last, n))
        yield cuts


@generator("C03", "Sequences of inbound packets (PINGRESP, acknowledgements, PUBLISH of chosen sizes to a registered "
           "stream) under: every composition of the byte stream for short streams (exhaustive), single-byte "
           "chunking, every cut position, cuts at 510..514 / 1022..1026 relative to each packet start, packets "
           "of 2 B .. 70 KiB (thorough: 2 MiB), batched segments (hold) - strict executor with stall detection.")
def c03(tier, rng):
    out = []
    sp = sub_prefix() + " ; start 9 0 ping ; poll 9"
    n = [0]

    def add(stream, cuts, tags, tail=" ; pollstream 0 ; pollstream 0 ; pollstream 0 ; pollstream 0", hold=False):
        evs = ["deliver " + hx(stream[a:b]) for a, b in cuts if b > a]
        body = " ; ".join(evs)
        if hold:
            body = "hold ; " + body + " ; release"
        out.append(case("f%d" % n[0], sp + " ; " + body + tail + " ; poll 9", tags, stream_len=len(stream), chunks=len(cuts)))
        n[0] += 1
    # exhaustive compositions of a short stream: PINGRESP + short PUBLISH + PUBREL
    stream = M.pingresp() + M.publish(b"t", b"x", ps=[(11, 1)]) + M.pubrel(2)
    stream = stream[:12] if tier == "quick" else stream
    assert len(stream) >= 12
    short = M.pingresp() + M.publish(b"t", b"x", ps=[(11, 1)])[:0] + M.publish(b"t", b"", ps=[(11, 1)]) + M.pubrel(2)[:0]
    short = M.pingresp() + M.publish(b"t", b"", ps=[(11, 1)]) + M.pingresp()       # 2 + 8 + 2 = 12 bytes
    for cuts in compositions(len(short)):
        add(short, cuts, ["exhaustive12"])
    if tier == "thorough":
        s14 = M.pubrel(9) + M.publish(b"t", b"", ps=[(11, 1)]) + M.pingresp()      # 4 + 8 + 2
        for cuts in compositions(len(s14)):
            add(s14, cuts, ["exhaustive14"])
    # longer streams
    def mk_stream(sizes):
        s = b""
        starts = []
        for k, L in enumerate(sizes):
            starts.append(len(s))
            if L < 0:
                s += [M.pingresp(), M.pubrel(5 + k), M.puback(900 + k)][(-L) % 3]
            else:
                s += M.publish(b"t", bytes((i + k) % 251 for i in range(L)), ps=[(11, 1)])
        return s, starts
    size_sets = [[-1, 100, -2, 600, -3], [500, 501, 502], [505, -1, 1015, -2], [1200, 0, 1, 2], [127 - 8, 128 - 8, -1],
                 [16383, -1, 16384], [70000, -1, 3]]
    for sizes in size_sets:
        stream, starts = mk_stream(sizes)
        tail = " ; " + " ; ".join(["pollstream 0"] * (len(sizes) + 1))
        add(stream, [(0, len(stream))], ["whole"], tail)
        add(stream, [(a, a + 1) for a in range(len(stream))] if len(stream) < 3000 else [(0, 1), (1, 2), (2, 3), (3, len(stream))], ["bytewise"], tail)
        add(stream, [(0, len(stream))], ["whole", "held"], tail, hold=True)
        # every cut position (two chunks) for moderate lengths, sampled for long ones
        positions = range(1, len(stream)) if len(stream) < (400 if tier == "quick" else 2500) else \
            sorted(set(rng.randrange(1, len(stream)) for _ in range(60 if tier == "quick" else 400)))
        for p in positions:
            add(stream, [(0, p), (p, len(stream))], ["cut2"], tail)
        # alignment against the 512/1024 steps relative to each packet start
        for st in starts:
            for off in (510, 511, 512, 513, 514, 1022, 1023, 1024, 1025, 1026):
                p = st + off
                if 0 < p < len(stream):
                    add(stream, [(0, p), (p, len(stream))], ["align"], tail)
                    add(stream, [(0, st + 1), (st + 1, p), (p, p + 1), (p + 1, len(stream))] if st + 1 < p < len(stream) - 1 else [(0, p), (p, len(stream))], ["align3"], tail)
        for _ in range(n_cases(tier, 10, 200)):
            k = rng.randint(2, 8)
            pts = sorted(set(rng.randrange(1, len(stream)) for _ in range(k)))
            cuts = list(zip([0] + pts, pts + [len(stream)]))
            add(stream, cuts, ["random"], tail, hold=rng.random() < 0.2)
    # a packet ending exactly at, just before or just after the 512 / 1024 / 1536 byte steps of the receive buffer, followed
    # by a PINGRESP (2 bytes) or a short PUBACK in the same transport segment
    for total in list(range(495, 518)) + list(range(1000, 1030)) + list(range(1530, 1541)):
        first = M.publish(b"t", bytes((i * 5) % 251 for i in range(total - 9)), ps=[(11, 1)])
        assert len(first) == total, (len(first), total)
        for follow in (M.pingresp(), M.puback(77), M.pingresp() + M.publish(b"t", b"z", ps=[(11, 1)])):
            stream = first + follow
            add(stream, [(0, len(stream))], ["bufstep"], " ; pollstream 0 ; pollstream 0 ; pollstream 0")
            if total % 4 == 1:
                add(stream, [(0, 512), (512, len(stream))] if len(stream) > 512 else [(0, len(stream))], ["bufstep", "cut512"],
                    " ; pollstream 0 ; pollstream 0 ; pollstream 0")
    # remaining lengths that are multiples of 128 (first length byte 0x80, second 0x80 for multiples of 16384), the read ending
    # inside the length field: a length that is not complete yet says nothing
    for sizes in ([122, -1, 250, -2, 378], [16378, -1, 122], [16384 * 2 - 7, 3]):
        stream, starts = mk_stream(sizes)
        tail = " ; " + " ; ".join(["pollstream 0"] * (len(sizes) + 1))
        for st_ in starts:
            for off in (1, 2, 3):
                p_ = st_ + off
                if 0 < p_ < len(stream):
                    add(stream, [(0, p_), (p_, len(stream))], ["len128"], tail)
                    if st_ > 0:
                        add(stream, [(0, st_), (st_, p_), (p_, p_ + 1), (p_ + 1, len(stream))], ["len128"], tail)
        if len(stream) < 1200:
            add(stream, [(a, a + 1) for a in range(len(stream))], ["len128", "bytewise"], tail)
    # a read that brings whole packets and ends 1..5 bytes into the fixed header of a packet whose remaining length takes three
    # bytes (thorough: also four), the packets before it full of bytes >= 0x80: what lies behind the received bytes in the
    # receive buffer is never part of a length
    hi = bytes(0x80 + (i * 37) % 128 for i in range(40))
    precs = [M.pingresp(), M.puback(0x8081, 151, [(31, "\u00e9\u00e8\u00ea\u00eb".encode())], "long"), M.publish(hi[:2].hex().encode(), hi, ps=[(11, 1)]),
             M.pingresp() + M.puback(0xffff, 128, (), "long") + M.pingresp(), M.publish(b"t", hi * 20, ps=[(11, 1)])]
    bigs = [16384, 70000] if tier == "quick" else [16384, 20000, 70000, 2097152 + 5]
    for pi_, prec in enumerate(precs):
        for L in bigs:
            big_ = M.publish(b"t", bytes(0x80 + (i % 120) for i in range(L)), ps=[(11, 1)])
            stream = prec + big_ + M.pingresp()
            for k_ in (1, 2, 3, 4, 5):
                if L > 2000000 and (pi_ > 1 or k_ < 3):
                    continue
                p_ = len(prec) + k_
                add(stream, [(0, p_), (p_, len(stream))], ["hdrcut"], " ; pollstream 0 ; pollstream 0 ; pollstream 0")
                if k_ in (3, 4) and len(prec) > 4:
                    add(stream, [(0, 3), (3, p_), (p_, p_ + 1), (p_ + 1, len(stream))], ["hdrcut", "hdrcut4"], " ; pollstream 0 ; pollstream 0 ; pollstream 0")
    # one poll going through tens of thousands of reads: a large packet whose bytes are all available but handed
    # out by the transport in tiny pieces (the depth of whatever the framing code does per read becomes visible)
    for L, piece in ([(12000, 1), (30000, 3)] if tier == "quick" else [(12000, 1), (30000, 3), (24000, 1), (60000, 2)]):
        stream = M.pingresp() + M.publish(b"t", bytes((i * 7) % 253 for i in range(L)), ps=[(11, 1)]) + M.pingresp()
        cuts = [(a, min(a + piece, len(stream))) for a in range(0, len(stream), piece)]
        add(stream, cuts, ["burst"], " ; pollstream 0 ; pollstream 0", hold=True)
    if tier == "thorough":
        stream = M.publish(b"t", b"\x55" * 2097152, ps=[(11, 1)]) + M.pingresp()
        add(stream, [(0, 1), (1, 3), (3, 1000), (1000, len(stream) - 1), (len(stream) - 1, len(stream))], ["2MiB"])
    # the framing of a connection depends on that connection's bytes only: the same Context connected again after its
    # previous connection ended in the middle of a packet (after every prefix of a PUBLISH), by EOF or by the user
    left = M.publish(b"t", b"left-over", 1, 7, ps=[(11, 1)])
    for k in list(range(1, len(left))) if tier == "thorough" else (1, 2, 3, 5, 9, len(left) - 1):
        for how in ("eof", "disc"):
            end = "eof" if how == "eof" else "start 5 0 disc ; poll 5 ; poll 5"
            out.append(case("again-%s-%d" % (how, k), sub_prefix() + " ; deliver %s ; %s ; reconnect ; connect ; deliver %s ; run ; start 6 0 ping ; poll 6 ; "
                            "deliver %s ; poll 6 ; start 7 0 sub f=62:0000 ; poll 7 ; deliver %s ; poll 7"
                            % (hx(left[:k]), end, hx(M.connack()), hx(M.pingresp()), hx(M.suback(2, [0]))), ["again"]))
    # the size limit the CLIENT announces in CONNECT concerns single packets, never how many bytes one read brings
    for own in (16, 256, 3000):
        pre_own = "connect mps=%d ; deliver %s ; run ; start 0 0 sub f=61:2000 ; poll 0 ; deliver %s ; poll 0 ; tostream 0 ; start 9 0 ping ; poll 9" % (
            own, hx(M.connack()), hx(M.suback(1, [2])))
        one = M.publish(b"t", b"x" * max(1, min(own, 900) - 12), ps=[(11, 1)])
        for reps in (3, 8):
            stream = one * reps + M.pingresp()
            out.append(case("ownlimit-%d-%d" % (own, reps), pre_own + " ; deliver %s ; %s ; poll 9" % (hx(stream), " ; ".join(["pollstream 0"] * (reps + 1))),
                            ["ownlimit"], stream_len=len(stream), chunks=1))
    # what arrives in the same read as the CONNACK (or straddles it) belongs to the connection like everything else
    for opts in ("", "mps=2000", "mps=100000 rm=5"):
        tail_ = M.suback(1, [2]) + M.publish(b"t", b"early bird", 1, 9, ps=[(11, 1)]) + M.pingresp()
        ca = M.connack()
        for cut in (len(ca), len(ca) + 3, 3):
            whole = ca + M.publish(b"t", b"zero", 0, None)
            out.append(case("with-connack-%s-%d" % (opts.replace(" ", "_").replace("=", "") or "plain", cut),
                            ("connect %s" % opts).strip() + " ; deliver %s ; deliver %s ; run ; start 0 0 sub f=61:2000 ; poll 0 ; start 9 0 ping ; poll 9 ; deliver %s ; poll 0 ; tostream 0 ; pollstream 0 ; poll 9"
                            % (hx(whole[:cut]), hx(whole[cut:]), hx(tail_)), ["with-connack"]))
    # the transport ends: never before its own end-of-stream
    for cause in ("eof", "rerr"):
        stream, _ = mk_stream([-1, 40])
        out.append(case("end-%s" % cause, sp + " ; deliver %s ; deliver %s ; %s ; pollstream 0" % (hx(stream[:5]), hx(stream[5:20]), cause), ["end"]))
    return out


# ---- C04 ------------------------------------------------------------------------------------------
def valid_packets():
    return [M.connack(), M.connack(0, 0, [(33, 5), (38, (b"k", b"v"))]), M.auth(24, [(21, b"m"), (22, b"d")]),
            M.publish(b"t", b"p", 1, 5, ps=[(11, 1), (2, 9)]), M.publish(b"t", b"p"), M.puback(1), M.puback(1, 16, [(31, b"r")]),
            M.pubrec(1, 0, form="short3"), M.pubrel(1), M.pubcomp(1, 146), M.suback(1, [0, 1]), M.unsuback(1, [0]),
            M.pingresp(), M.disconnect(0), M.disconnect(142, [(31, b"x")]), M.auth()]


@generator("C04", "Malformed stream: all byte strings up to length 4 (quick) / 5 (thorough) over a boundary alphabet "
           "(exhaustive), all truncations of every valid packet, remaining-length and property-length perturbations, "
           "bit flips, property splices, 5-byte varints; every packet type in every phase (connecting / authorising "
           "/ running); EOF / read error / write error at every byte offset of short scripts; debug and release.")
def c04(tier, rng):
    import itertools
    out = []
    n = [0]
    phases = {"connecting": "connect", "authorising": "connect am=6d ad=01 ; deliver %s ; auth r=24 am=6d ad=02" % hx(M.auth(24, [(21, b"m")])),
              "running": PRE + " ; start 0 0 ping ; poll 0 ; start 1 0 pub q=1 t=61 ; poll 1 ; start 2 0 sub f=61:0000 ; poll 2"}

    def add(phase, bs, tags, split=False):
        if not bs:
            return
        d = "deliver " + hx(bs) if not split else " ; ".join("deliver " + hx(bs[i:i + 1]) for i in range(len(bs)))
        tail = " ; eof" if phase != "running" else " ; poll 0 ; poll 1 ; poll 2 ; deliver d000 ; eof"
        out.append(case("m%d" % n[0], phases[phase] + " ; " + d + tail, [phase] + tags))
        n[0] += 1
    alpha = [0x00, 0x01, 0x02, 0x7f, 0x80, 0xff, 0x20, 0x30, 0x32, 0x40, 0x90, 0xe0, 0xf0, 0xd0]
    depth = 3 if tier == "quick" else 4
    for L in range(1, depth + 1):
        for t in itertools.product(alpha, repeat=L):
            if L >= 3 and t[0] in (0x00, 0x01, 0x02, 0x7f, 0x80, 0xff) and rng.random() < 0.9:
                continue     # unknown packet types all behave alike; keep a sample
            if L == 4 and rng.random() < 0.7:
                continue
            add("running", bytes(t), ["short%d" % L])
    for p in valid_packets():
        for phase in phases:
            add(phase, p, ["valid-any-phase"])
        for k in range(1, len(p)):
            # truncated packet with its remaining length rewritten to fit (so framing hands it to the decoder)
            body = p[2:k + 1] if p[1] < 128 else None
            if body is not None and len(body) < 128:
                add("running", bytes([p[0], len(body)]) + body, ["truncated"])
        for k in range(len(p)):
            for bit in (0, 7) if tier == "quick" else range(8):
                q = bytearray(p)
                q[k] ^= 1 << bit
                add("running", bytes(q), ["bitflip"])
        for delta in (-2, -1, 1, 2):
            if 0 <= p[1] + delta < 128:
                q = bytearray(p)
                q[1] = p[1] + delta
                add("running", bytes(q) + (b"\x00" * max(0, delta)), ["remlen%+d" % delta])
    # never wedged with unread input: a PINGRESP handed over in the same read as the end of other packets, nothing after it -
    # the ping pending since the start completes
    glue = [M.puback(1), M.publish(b"t", b"p"), M.publish(b"t", b"", 1, 5, ps=[(11, 1)]), M.suback(3, [0]), M.pubrel(4),
            M.pingresp(), M.puback(1) + M.pubcomp(2), M.publish(b"t", b"x" * 600), M.auth()[:0]]
    for g in glue:
        for chunks in (1, 2):
            bs = g + M.pingresp()
            if chunks == 1:
                d = "deliver " + hx(bs)
            else:
                d = "deliver %s ; deliver %s" % (hx(bs[:1]), hx(bs[1:])) if len(bs) > 2 else "deliver " + hx(bs)
            out.append(case("glued-pingresp-%d-%d" % (glue.index(g), chunks), phases["running"] + " ; " + d + " ; poll 0 ; poll 1 ; poll 0", ["running", "glued"]))
    # quota arithmetic cannot overflow: Session Present with a low Receive Maximum, then acknowledgements nobody waits for
    for sp_ in (0, 1):
        for rm in (1, 2, 65535):
            strays = M.puback(9) + M.pubcomp(9) + M.pubrec(9, 128) + M.puback(10, 128) + M.pubcomp(11, 146)
            out.append(case("strayquota-sp%d-R%d" % (sp_, rm), "connect ; deliver %s ; run ; start 0 0 ping ; poll 0 ; deliver %s ; deliver %s ; "
                            "start 1 0 pub q=1 t=61 ; poll 1 ; start 2 0 pub q=2 t=61 ; poll 2 ; deliver %s ; poll 0"
                            % (hx(M.connack(sp_, 0, [(33, rm)])), hx(strays), hx(strays), hx(M.pingresp())), ["running", "strayquota"]))
    # a read that fills the whole offered buffer (512 bytes) and ends right behind a fixed header or inside a multi-byte
    # remaining length, with complete packets before it: the ping pending since the start completes
    filler = M.publish(b"t", b"f" * 200)
    big = M.publish(b"t", b"B" * 300)                       # remaining length needs two bytes
    for lead in range(506, 514):
        head = b""
        while len(head) + len(filler) <= lead - 2:
            head += filler
        pad = lead - len(head)
        if pad >= 7:
            head += M.publish(b"t", b"p" * (pad - 6))
        elif pad in (2, 4, 6):
            head += M.pingresp() * (pad // 2)
        else:
            continue
        assert len(head) == lead, (len(head), lead)
        stream = head + big + M.pingresp()
        out.append(case("fill512-%d" % lead, phases["running"] + " ; deliver %s ; deliver %s ; poll 0 ; poll 1 ; poll 0" % (hx(stream[:512]), hx(stream[512:])),
                        ["running", "fill512"]))
        out.append(case("fill512w-%d" % lead, phases["running"] + " ; deliver %s ; poll 0 ; poll 1 ; poll 0" % hx(stream), ["running", "fill512"]))
    # a User Property whose name is fine and whose value is not UTF-8, in every packet that can carry one, with somebody
    # reading the properties afterwards
    for bad in (b"\xff", b"\xc3", b"\xed\xa0\x80", b"ok\xfe"):
        up = [(38, (b"name", bad))]
        out.append(case("badup-publish-%s" % hx(bad), PRE + " ; start 0 0 sub f=61:2000 ; poll 0 ; deliver %s ; poll 0 ; tostream 0 ; deliver %s ; pollstream 0 ; pollstream 0"
                        % (hx(M.suback(1, [2])), hx(M.publish(b"a", b"x", ps=[(11, 1)] + up))), ["running", "badup"]))
        out.append(case("badup-disconnect-%s" % hx(bad), phases["running"] + " ; deliver %s" % hx(M.disconnect(139, up, "long")), ["running", "badup"]))
        out.append(case("badup-puback-%s" % hx(bad), phases["running"] + " ; deliver %s ; poll 1" % hx(M.puback(1, 135, up)), ["running", "badup"]))
        out.append(case("badup-suback-%s" % hx(bad), phases["running"] + " ; deliver %s ; poll 2" % hx(M.suback(2, [0], up)), ["running", "badup"]))
        out.append(case("badup-connack-%s" % hx(bad), "connect ; deliver %s" % hx(M.connack(0, 135, up)), ["connecting", "badup"]))
    # a write half that stops taking bytes (poll_write = Ok(0)) at every offset of what is being written: an error, never a spin
    for k in range(0, 8):
        out.append(case("zerowrite-connect-%d" % k, "werr0 %d ; connect ; deliver %s" % (k, hx(M.connack())), ["connecting", "zerowrite"]))
        out.append(case("zerowrite-run-%d" % k, PRE + " ; werr0 %d ; start 0 0 pub q=1 t=61 pl=41 ; poll 0 ; poll 0" % k, ["running", "zerowrite"]))
        out.append(case("zerowrite-ack-%d" % k, PRE + " ; werr0 %d ; deliver %s ; deliver %s" % (k, hx(M.publish(b"t", b"x", 1, 9)), hx(M.publish(b"t", b"y", 2, 10))), ["running", "zerowrite"]))
    # run() called again on the same connection after it gave up on an undecodable packet: the bytes that follow are framed
    # and served as ever (no panic, nothing left unread)
    for bad in (M.publish(b"\xff\xfe", b"x"), M.packet(0x40, b"\x00\x00"), M.puback(1, 200), M.publish(b"t" * 700, b"x" * 30)[:-5] + b"\xff" * 5,
                M.packet(0x30, M.binf(b"\xc0\x80" * 300) + b"\x00" + b"p" * 20)):
        for follow in (M.pingresp(), M.publish(b"t", b"after", 1, 9) + M.pingresp()):
            out.append(case("rerun-%s-%d" % (hx(bad[:3]), len(follow)), PRE + " ; start 0 0 ping ; poll 0 ; deliver %s ; run ; deliver %s ; poll 0 ; run ; deliver %s ; poll 0"
                            % (hx(bad + follow[:1]), hx(follow[1:]), hx(M.pingresp())), ["running", "rerun"]))
        out.append(case("reconnect-same-transport-%s" % hx(bad[:3]), "connect ; deliver %s ; connect ; deliver %s ; run ; start 0 0 ping ; poll 0 ; deliver %s ; poll 0"
                        % (hx(bad), hx(M.connack()), hx(M.pingresp())), ["connecting", "rerun"]))
    for hdr in (0x38, 0x39):
        for pl_ in (b"\x01\x00", b"\x00\x01\x00", b"\x00\x07\x02\x0b\x01", b"\x12\x34\x00payload"):
            pk = bytearray(M.publish(b"t", pl_))
            pk[0] = hdr
            out.append(case("dup-qos0-%02x-%s" % (hdr, hx(pl_)), phases["running"] + " ; deliver %s ; deliver d000 ; poll 0" % hx(bytes(pk)), ["running", "dup-qos0"]))
            pk2 = bytearray(M.publish(b"a", pl_, ps=[(11, 1)]))
            pk2[0] = hdr
            out.append(case("dup-qos0-sub-%02x-%s" % (hdr, hx(pl_)), PRE + " ; start 0 0 sub f=61:2000 ; poll 0 ; deliver %s ; poll 0 ; tostream 0 ; deliver %s ; pollstream 0 ; pollstream 0"
                            % (hx(M.suback(1, [2])), hx(bytes(pk2))), ["running", "dup-qos0"]))
    # over-long variable byte integers, in the length field and in a property
    for v in (b"\xff\xff\xff\xff\x7f", b"\x80\x80\x80\x80\x00", b"\xff\xff\xff\x7f", b"\x80\x80\x80\x80\x80"):
        add("running", b"\x40" + v, ["varint5"])
        add("connecting", b"\x20" + v, ["varint5"])
        add("running", M.packet(0x30, M.binf(b"t") + bytes([len(v) + 1, 11]) + v), ["varint5-prop"])
    # property splices: every property id with too-short / wrong values inside each property-bearing packet
    for pid in list(M.PTYPE) + [0, 4, 12, 255]:
        for val in (b"", b"\x00", b"\x00\x05", b"\x00\x01\xff", b"\xff\xff\xff\xff\xff"):
            pr = bytes([pid]) + val
            add("connecting", M.packet(0x20, b"\x00\x00" + M.varint(len(pr)) + pr), ["splice"])
            add("running", M.packet(0x30, M.binf(b"t") + M.varint(len(pr)) + pr + b"pl"), ["splice"])
            if tier == "thorough":
                add("running", M.packet(0x40, M.u16(1) + b"\x00" + M.varint(len(pr)) + pr), ["splice"])
                add("running", M.packet(0xe0, b"\x00" + M.varint(len(pr)) + pr), ["splice"])
                add("authorising", M.packet(0xf0, b"\x18" + M.varint(len(pr)) + pr), ["splice"])
    # binary data announcing one or two bytes more than its packet holds, last in its region
    for over in (1, 2, 3):
        for have in (0, 1, 4):
            val = M.u16(have + over) + b"\xab" * have
            pr = bytes([9]) + val
            add("running", M.packet(0x30, M.binf(b"t") + M.varint(len(pr)) + pr), ["splice", "overrun"])
            add("running", M.packet(0x30, M.binf(b"t") + M.varint(len(pr) + 2) + bytes([1, 0]) + pr), ["splice", "overrun"])
            pr2 = bytes([22]) + val
            add("connecting", M.packet(0x20, b"\x00\x00" + M.varint(len(pr2) + 3) + bytes([21, 0, 0]) + pr2), ["splice", "overrun"])
            add("authorising", M.packet(0xf0, b"\x18" + M.varint(len(pr2) + 4) + bytes([21, 0, 1, 0x6d]) + pr2), ["splice", "overrun"])
    # SUBACK / UNSUBACK reason codes the standard does not define, in any position
    for codes in ([3], [0x7f], [0xff], [0, 0x9f], [0x9f, 1], [1, 2, 4]):
        add("running", M.suback(2, codes), ["undefined-code"])
        add("running", M.suback(77, codes), ["undefined-code"])
        add("running", M.unsuback(2, codes), ["undefined-code"])
    # invalid UTF-8 in strings
    for bad in (b"\xc0\x80", b"\xed\xa0\x80", b"\xf4\x90\x80\x80", b"\xe2\x82", b"\x80", b"\xf8\x88\x80\x80\x80"):
        add("running", M.publish(bad, b"x"), ["utf8"])
        add("connecting", M.connack(0, 0, [(31, bad)]), ["utf8"])
    # random garbage, bytewise
    for _ in range(n_cases(tier, 100, 3000)):
        bs = bytes(rng.choice(alpha + [rng.randrange(256)]) for _ in range(rng.randint(1, 24)))
        add(rng.choice(list(phases)), bs, ["random"], split=rng.random() < 0.5)
    # transport faults at every byte offset of a short exchange
    exch = M.suback(2) + M.publish(b"a", b"xy", 1, 9, ps=[(11, 1)]) + M.pingresp()
    for k in range(len(exch) + 1):
        for cause in ("eof", "rerr"):
            out.append(case("fault-%s-%d" % (cause, k), phases["running"] + " ; deliver %s ; %s ; poll 0 ; poll 1 ; poll 2"
                            % (hx(exch[:k]), cause), ["fault", cause]))
    for nm, pk in (("puback", M.puback(7, 128)), ("pubrec", M.pubrec(7, 128)), ("pubrec3", M.pubrec(7, 145, form="short3")),
                   ("pubcomp", M.pubcomp(7, 146)), ("pubrel", M.pubrel(7, 146))):
        out.append(case("stray-%s" % nm, PRE + " ; deliver %s ; deliver %s ; start 0 0 pub q=1 t=61 ; poll 0 ; deliver %s ; poll 0"
                        % (hx(pk), hx(pk), hx(M.puback(1))), ["stray-ack"]))
    acks = {"puback": M.puback, "pubrec": M.pubrec, "pubcomp": M.pubcomp, "pubrel": M.pubrel,
            "suback": lambda pid: M.suback(pid, [0]), "unsuback": lambda pid: M.unsuback(pid, [0])}
    pend = {"pub1": ("pub q=1 t=61", "puback"), "pub2": ("pub q=2 t=61", "pubrec"), "sub": ("sub f=61:0000", "suback"),
            "unsub": ("unsub f=61", "unsuback")}
    for kind, (start, right) in pend.items():
        for wrong in acks:
            if wrong == right:
                continue
            out.append(case("wrongtype-%s-%s" % (kind, wrong), PRE + " ; start 0 0 %s ; poll 0 ; deliver %s ; poll 0 ; deliver %s ; poll 0 ; poll 0"
                            % (start, hx(acks[wrong](1)), hx(acks[right](1))), ["wrongtype"]))
    # a large packet (valid, and one with a malformed tail) all available at once but read a byte at a time
    for nm, big in (("ok", M.publish(b"a", bytes(i % 251 for i in range(12000)), ps=[(11, 1)])),
                    ("bad", M.packet(0x30, M.binf(b"a") + b"\x00" * 9000)[:-1] + b"\xff" + b"\x40\xff\xff\xff\xff\x7f")):
        out.append(case("burst-%s" % nm, phases["running"] + " ; hold ; " + " ; ".join("deliver %02x" % b for b in big)
                        + " ; release ; poll 0 ; poll 1 ; poll 2 ; deliver d000", ["burst"]))
    for k in range(0, 40):
        out.append(case("fault-werr-%d" % k, "werr %d ; " % k + phases["running"] + " ; deliver %s ; poll 0 ; poll 1 ; poll 2"
                        % hx(exch), ["fault", "werr"]))
    return out
