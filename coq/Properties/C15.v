(* C15 - a cancelled operation never disturbs the connection or other callers.
   Known finding K2 (KNOWN_FINDINGS.txt): a QoS 2 publish() future dropped before its PUBREC - the
   PUBREL is sent by the future, so it is never sent and that publish's quota slot never returns. *)
From Poster Require Import Model.Client Proofs.ClientP Proofs.RunP Proofs.QuotaP Proofs.HandshakeP.

(* the late acknowledgement of a dropped future is absorbed: completing a dropped operation changes
   nothing at all *)
Theorem C15_absorbed : forall (s : sys) (i ph : N) (v : cval),
  alookup i (ops s) = None -> complete s i ph v = s.
Proof. exact complete_dropped. Qed.
Print Assumptions C15_absorbed.

(* it never makes run() return: the only packets that end the loop are a server DISCONNECT and
   a CONNACK/AUTH out of place - whatever futures or streams were dropped *)
Theorem C15_run_survives : forall (s : sys) (p : rxpkt) (r : runres),
  wbudget s = None -> snd (handle_packet s p) = Exit r ->
  (rk p = KDisconnect /\ r = (if r_reason p =? 0 then RunOk else RunDisconnected p)) \/
  ((rk p = KConnack \/ rk p = KAuth) /\ r = RunCodec).
Proof. exact handle_packet_exit. Qed.
Print Assumptions C15_run_survives.

(* and it still frees the flow-control slot: the effect of an inbound packet on (quota, R)
   depends on the packet only - not on whether anybody still waits for it *)
Theorem C15_slot_freed : forall (s : sys) (p : rxpkt),
  qr (c (fst (handle_packet s p))) =
  match completes p with Some _ => qr (bump_quota (c s)) | None => qr (c s) end.
Proof. exact handle_packet_qr. Qed.
Print Assumptions C15_slot_freed.

(* dropping a future touches only that future's entry (and its un-taken stream receiver) *)
Theorem C15_drop_local : forall (s : sys) (i : N),
  c (drop_op s i) = c s /\ msgq (drop_op s i) = msgq s /\ wire_ev (drop_op s i) = wire_ev s /\
  forall j, j <> i -> alookup j (ops (drop_op s i)) = alookup j (ops s).
Proof. exact drop_op_local. Qed.
Print Assumptions C15_drop_local.
