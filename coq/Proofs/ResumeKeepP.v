(* C17: a resumption reads the retransmit queue, it does not consume it. Whatever the writer does (healthy, or failing after any
   number of bytes, so that the resumption breaks off), the queue, the awaited acknowledgements, the subscriptions and the
   inbound QoS 2 identifiers are afterwards what they were; only the send quota moves. Hence a second resumption (the first one
   got no acknowledgement before the connection was lost again) re-sends exactly the same packets once more.
   (Seeded defects C17-10B `drain(..)`, C17-4x "an interrupted resumption forgetting unwritten entries".) *)
From Poster Require Import Model.Client Proofs.BytesP Proofs.ClientP Proofs.QuotaP Proofs.HandshakeP Proofs.ResumeP.

Lemma retransmit_keeps l : forall s,
  retx (c (fst (retransmit s l))) = retx (c s) /\ awaiting (c (fst (retransmit s l))) = awaiting (c s) /\
  subs (c (fst (retransmit s l))) = subs (c s) /\ await_rel (c (fst (retransmit s l))) = await_rel (c s) /\
  streams (fst (retransmit s l)) = streams s /\ ops (fst (retransmit s l)) = ops s /\ msgq (fst (retransmit s l)) = msgq s.
Proof.
  induction l as [|[k pkt] l IH]; intros s; cbn [retransmit fst]; [repeat split; reflexivity|].
  assert (Hw : c (fst (write s pkt)) = c s) by apply write_c.
  assert (Hs : streams (fst (write s pkt)) = streams s) by apply write_streams.
  assert (Ho : ops (fst (write s pkt)) = ops s /\ msgq (fst (write s pkt)) = msgq s).
  { unfold write. destruct (wbudget s) as [b|]; [destruct (lenN pkt <=? b)|]; split; reflexivity. }
  destruct (snd (write s pkt)).
  - destruct (IH (set_c (fst (write s pkt)) (with_quota (c (fst (write s pkt))) (quota (c (fst (write s pkt))) - 1)))) as (H1 & H2 & H3 & H4 & H5 & H6 & H7).
    rewrite H1, H2, H3, H4, H5, H6, H7. cbn [set_c c streams ops msgq with_quota retx awaiting subs await_rel]. rewrite Hw, Hs.
    destruct Ho as [Ho1 Ho2]. rewrite Ho1, Ho2. repeat split; reflexivity.
  - cbn [fst]. rewrite Hw, Hs. destruct Ho as [Ho1 Ho2]. rewrite Ho1, Ho2. repeat split; reflexivity.
Qed.

Theorem resume_twice l s : wbudget s = None ->
  let s1 := fst (retransmit s l) in
  wire_ev (fst (retransmit s1 l)) = wire_ev s ++ concat (map snd l) ++ concat (map snd l).
Proof.
  intros Hb s1. destruct (retransmit_wire l s Hb) as (H1 & _). 
  assert (Hb1 : wbudget s1 = None).
  { subst s1. clear H1. revert s Hb. induction l as [|[k pkt] l IH]; intros s Hb; cbn [retransmit fst]; [exact Hb|].
    unfold write. rewrite Hb. cbn [fst snd]. apply IH. reflexivity. }
  destruct (retransmit_wire l s1 Hb1) as (H2 & _). rewrite H2. subst s1. rewrite H1, <- app_assoc. reflexivity.
Qed.
