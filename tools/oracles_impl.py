"""Per-property trace monitors (see oracle.py)."""
import re
import mqtt as M
from oracle import oracle, Trace, events, by_event, in_packets, rx_info, kv, wire_of


def connection_streams(tr):
    """split the script at `reconnect`; per connection: (first event, last event, inbound bytes per event)"""
    conns, cur = [], {"first": 0, "in": {}}
    for k, e in enumerate(tr.evs):
        if e == "reconnect":
            cur["last"] = k - 1
            conns.append(cur)
            cur = {"first": k, "in": {}}
        elif e.startswith("deliver "):
            cur["in"][k] = M.unhex(e[8:])
    cur["last"] = len(tr.evs) - 1
    conns.append(cur)
    return conns


def inbound(tr, conn):
    """[(event at which the packet became complete, packet)] for one connection, or None"""
    buf, out = b"", []
    for k in sorted(conn["in"]):
        buf += conn["in"][k]
        while len(buf) >= 2:
            r = M.read_varint(buf, 1)
            if r is None:
                if len(buf) >= 5:
                    return None
                break
            n, j = r
            if len(buf) < j + n:
                break
            out.append((k, buf[:j + n]))
            buf = buf[j + n:]
    return out


def outbound(tr, conn):
    """[(event, info)] of client packets of one connection, or None when not whole packets"""
    out = []
    for k in range(conn["first"], conn["last"] + 1):
        ps = tr.out_packets(k)
        if ps is None:
            return None
        for p in ps:
            out.append((k, M.tx_info(p)))
    return out


def first_polls(tr):
    d = {}
    for k, e in enumerate(tr.evs):
        m = re.match(r"f?poll (\d+)$", e)
        if m and int(m.group(1)) not in d:
            d[int(m.group(1))] = k
    return d


def op_specs(tr):
    d = {}
    for k, e in enumerate(tr.evs):
        p = e.split()
        if p and p[0] == "start":
            d[int(p[1])] = {"kind": p[3], "args": kv(" ".join(p[4:])), "ev": k}
    return d


def run_window(tr):
    """(event of `run`, event at which run() returned or None)"""
    start = next((k for k, e in enumerate(tr.evs) if e == "run"), None)
    rr = tr.run_result()
    return start, (rr[0] if rr else None)


def has(tr, *names):
    return any(e.split()[0] in names for e in tr.evs if e)


# ---- C08 ------------------------------------------------------------------------------------------
@oracle("C08")
def c08(case, lines):
    tr = Trace(case, lines)
    if tr.faulty or has(tr, "reconnect", "dropctx", "hold"):
        return None
    conn = connection_streams(tr)[0]
    inp, outp = inbound(tr, conn), outbound(tr, conn)
    if inp is None or outp is None:
        return None
    start, end = run_window(tr)
    if start is None:
        return None
    want = []
    for k, p in inp:
        if k <= start or (end is not None and k > end):
            continue
        i = rx_info(p)
        if i["t"] == 3 and i["qos"] == 1:
            want.append(("puback", i["pid"]))
        elif i["t"] == 3 and i["qos"] == 2:
            want.append(("pubrec", i["pid"]))
        elif i["t"] == 6:
            want.append(("pubcomp", i["pid"]))
    got = [(i["kind"], i["pid"]) for k, i in outp if i["kind"] in ("puback", "pubrec", "pubcomp")]
    if end is not None:
        # packets of the event in which run() returned may or may not have been taken
        if got != want[:len(got)]:
            return "acks: acknowledgements written %s are not a prefix of those due %s" % (got, want)
        return None
    if got != want:
        return "acks: acknowledgements written %s differ from those due %s" % (got[:6], want[:6])
    return None


# ---- C09 ------------------------------------------------------------------------------------------
@oracle("C09")
def c09(case, lines):
    tr = Trace(case, lines)
    if tr.faulty or has(tr, "reconnect", "dropctx", "hold", "dropstream"):
        return None
    conn = connection_streams(tr)[0]
    inp = inbound(tr, conn)
    if inp is None:
        return None
    start, end = run_window(tr)
    if end is not None:
        return None
    awaiting = set()
    expect = {}          # subid -> list of payload hex (QoS 2 only)
    for k, p in inp:
        i = rx_info(p)
        if i["t"] == 3 and i["qos"] == 2:
            if i["pid"] not in awaiting:
                awaiting.add(i["pid"])
                for sid in i["subids"][-1:]:
                    expect.setdefault(sid, []).append(bytes(i["payload"]))
        elif i["t"] == 6:
            awaiting.discard(i["pid"])
    # items actually yielded with q=2, per stream; streams map to subids in subscribe order
    subs = [i for i, o in sorted(op_specs(tr).items()) if o["kind"] == "sub"]
    fp = first_polls(tr)
    order = sorted([i for i in subs if i in fp], key=lambda i: fp[i])
    sid_of = {op: n + 1 for n, op in enumerate(order)}
    got = {}
    for l in lines:
        p = l.split(" ")
        if p[1] == "I":
            f = kv(" ".join(p[3:]))
            if f.get("q") == "2":
                got.setdefault(sid_of.get(int(p[2])), []).append(f["pl"])
    for sid, items in got.items():
        want = [M.hx(x) for x in expect.get(sid, [])]
        if items != want[:len(items)]:
            return "qos2: stream of subscription %s yielded %s, exactly-once delivery allows %s" % (sid, items, want)
    return None


# ---- C10 ------------------------------------------------------------------------------------------
def connack_props(tr):
    for e in tr.evs:
        for p in in_packets(e) or []:
            if p[0] >> 4 == 2:
                body = p[M.read_varint(p, 1)[1]:]
                pl, k = M.read_varint(body, 2)
                pr, i, d = body[k:k + pl], 0, {}
                while i < len(pr):
                    t = M.PTYPE.get(pr[i])
                    if t == "u16":
                        d[pr[i]] = (pr[i + 1] << 8) | pr[i + 2]
                        i += 3
                    elif t == "u32":
                        d[pr[i]] = int.from_bytes(pr[i + 1:i + 5], "big")
                        i += 5
                    elif t == "byte":
                        d[pr[i]] = pr[i + 1]
                        i += 2
                    else:
                        break
                return d
    return {}


@oracle("C10")
def c10(case, lines):
    tr = Trace(case, lines)
    if tr.faulty or has(tr, "reconnect", "dropctx", "hold", "spin"):
        return None
    R = connack_props(tr).get(33, 65535)
    conn = connection_streams(tr)[0]
    inp, outp = inbound(tr, conn), outbound(tr, conn)
    if inp is None or outp is None:
        return None
    ev_in = {}
    for k, p in inp:
        ev_in.setdefault(k, []).append(rx_info(p))
    ev_out = {}
    for k, i in outp:
        ev_out.setdefault(k, []).append(i)
    inflight = set()
    fp = first_polls(tr)
    specs = op_specs(tr)
    handled_at = {v: k for k, v in fp.items()}
    done = tr.done()
    for k in range(len(tr.evs)):
        for i in ev_in.get(k, []):
            if (i["t"] in (4, 7) or (i["t"] == 5 and i["reason"] >= 128)) and i.get("pid") in inflight:
                inflight.discard(i["pid"])
        before = len(inflight)
        for o in ev_out.get(k, []):
            if o["kind"] == "publish" and o["qos"] > 0 and not o["dup"]:
                inflight.add(o["pid"])
        if len(inflight) > R:
            return "bound: %d QoS>0 PUBLISH packets in flight at event %d, Receive Maximum is %d" % (len(inflight), k, R)
        if k in handled_at:
            op = handled_at[k]
            sp = specs.get(op)
            res = [r for _, r in done.get(op, [])]
            if sp and sp["kind"] == "pub" and sp["args"].get("q", "0") != "0":
                refused = any("QuotaExceeded" in r for r in res)
                if refused and before < R:
                    return "refusal: publish %d refused with QuotaExceeded while only %d of %d slots were taken" % (op, before, R)
                if refused and len(inflight) != before:
                    return "refusal: a refused publish reached the wire"
            elif any("QuotaExceeded" in r for r in res):
                return "unlimited: operation %d (%s) was limited by the send quota" % (op, sp and sp["kind"])
    return None


# ---- C11 ------------------------------------------------------------------------------------------
@oracle("C11")
def c11(case, lines):
    seen_order = []
    for l in lines:
        p = l.split(" ")
        if p[1] == "K":
            if "panic" in l:
                return "panic: allocating an identifier panicked (operation %s)" % p[2]
            if p[3] == "incomplete":
                return "incomplete: operation %s did not complete on its own acknowledgement" % p[2]
            if p[3].startswith("pid="):
                v = int(p[3][4:])
                if v == 0:
                    return "zero: packet identifier 0 handed out (operation %s)" % p[2]
                seen_order.append(v)
    # identifiers handed out fewer than 65535 allocations apart differ
    last = {}
    for n, v in enumerate(seen_order):
        if v in last and n - last[v] < 65535:
            return "window: identifier %d handed out twice within %d allocations" % (v, n - last[v])
        last[v] = n
    return None


# ---- C12 ------------------------------------------------------------------------------------------
@oracle("C12")
def c12(case, lines):
    tr = Trace(case, lines)
    m = case.get("meta") or {}
    if "L" not in m:
        return None
    L, Mx, kind = m["L"], m["M"], m["kind"]
    outp = outbound(tr, connection_streams(tr)[0])
    if outp is None:
        return "wire: the bytes written are not a sequence of whole packets"
    first = [i for k, i in outp if i["kind"] != "connect"]
    res = [r for _, r in tr.done().get(0, [])]
    want_kind = {"pub0": "publish", "pub1": "publish", "pub2": "publish", "sub": "subscribe", "unsub": "unsubscribe",
                 "ping": "pingreq", "disc": "disconnect"}[kind]
    too_big = Mx is not None and L > Mx
    if too_big:
        if not any("MaximumPacketSizeExceeded" in r for r in res):
            return "reject: L=%d > M=%d but the operation ended with %s" % (L, Mx, res)
        if first and first[0]["kind"] == want_kind and first[0]["len"] == L:
            return "reject: L=%d > M=%d but the packet was written" % (L, Mx)
    else:
        if any("MaximumPacketSizeExceeded" in r for r in res):
            return "accept: L=%d <= M=%s but the operation was refused" % (L, Mx)
        if not first or first[0]["kind"] != want_kind or first[0]["len"] != L:
            return "accept: L=%d <= M=%s but the packet was not written in full (first packet %s)" % (
                L, Mx, first[0]["kind"] + "/%d" % first[0]["len"] if first else None)
    # no quota slot left behind by a rejection: the follow-up QoS 1 publish (7 bytes) goes out iff it fits and a slot is free
    if kind != "disc":
        res1 = [r for _, r in tr.done().get(1, [])]
        fits = Mx is None or 7 <= Mx
        slot_taken = (not too_big) and kind in ("pub1", "pub2")
        if fits and not slot_taken and any("QuotaExceeded" in r for r in res1):
            return "sideeffect: a rejected or unlimited request consumed a send-quota slot"
    return None


# ---- C13 ------------------------------------------------------------------------------------------
@oracle("C13")
def c13(case, lines):
    tr = Trace(case, lines)
    start, end = run_window(tr)
    rr = tr.run_result()
    cid = case["id"]
    if cid.startswith("connack-r"):
        r = int(cid[9:])
        c = [x for k in tr.by for x in tr.by[k] if x.startswith("C ")]
        if not c:
            return "connect: connect() did not return on CONNACK"
        if r < 128 and not c[0].startswith("C ok ") or r >= 128 and not c[0].startswith("C err Connect r=%d " % r):
            return "connect: CONNACK reason %d gave %s" % (r, c[0][:40])
        return None
    if cid.startswith("connect-"):
        c = [x for k in tr.by for x in tr.by[k] if x.startswith("C ")]
        if cid == "connect-auth":
            return None if (c and c[0].startswith("C auth ")) else "connect: AUTH challenge gave %s" % c[:1]
        if not c or "SocketClosed" not in c[-1]:
            return "connect: transport ended first but connect() gave %s" % c[:1]
        return None
    if start is None:
        return None
    kind = cid.split("-")[0]
    if kind == "nocause":
        return "onlythen: run() returned %s without a terminating cause" % rr[1] if rr else None
    if rr is None:
        return "exits: run() did not return on cause %s" % kind
    res = rr[1]
    if kind == "userdisc":
        if res != "ok":
            return "exits: user DISCONNECT gave %s" % res
        w = wire_of([l for l in lines if int(l.split(" ")[0]) >= start])
        ps = M.split_packets(w)
        if ps is None or any(p[0] >> 4 == 14 for p in ps[:-1]) or not ps or ps[-1][0] >> 4 != 14:
            return "afterdisc: something was written after the user's DISCONNECT"
    elif kind == "srvdisc":
        r = int(cid.split("-")[2][1:])
        if r == 0 and res != "ok":
            return "exits: server DISCONNECT reason 0 gave %s" % res
        if r != 0 and not res.startswith("err Disconnected r=%d " % r):
            return "exits: server DISCONNECT reason %d gave %s" % (r, res)
    elif kind in ("eof", "rerr", "werr"):
        if res != "err SocketClosed":
            return "exits: %s gave %s" % (kind, res)
    elif kind == "handles":
        if res != "err HandleClosed":
            return "exits: all handles dropped gave %s" % res
        if rr[0] != len(tr.evs) - 1 - 0 and not tr.evs[rr[0]].startswith(("poll", "dropop", "drophandle")):
            return "exits: HandleClosed reported at an unrelated event"
    elif kind == "undecodable":
        if not res.startswith("err"):
            return "exits: undecodable input gave %s" % res
    return None


# ---- C14 ------------------------------------------------------------------------------------------
@oracle("C14")
def c14(case, lines):
    tr = Trace(case, lines)
    dk = next((k for k, e in enumerate(tr.evs) if e == "dropctx"), None)
    if dk is None:
        return None
    resolved = {op for op, rs in tr.done().items()}
    ended = set()
    for k in sorted(tr.by):
        for r in tr.by[k]:
            p = r.split(" ")
            if k > dk and p[0] == "P":
                return "pending: operation %s still pending when polled after the context was dropped" % p[1]
            if k > dk and p[0] == "D" and not ("ContextExited" in r) and k > dk:
                # an operation already completed by the context before the drop reports its own result
                pass
            if p[0] == "E":
                ended.add(int(p[1]))
    # operations started after the drop fail immediately with ContextExited
    specs = op_specs(tr)
    for op, sp in specs.items():
        if sp["ev"] > dk:
            rs = [r for _, r in tr.done().get(op, [])]
            if first_polls(tr).get(op) is not None and not any("ContextExited" in r or "Codec" in r for r in rs):
                return "later: operation %d started after the drop ended with %s" % (op, rs)
    # every stream polled often enough ends
    polls = {}
    for k, e in enumerate(tr.evs):
        m = re.match(r"f?pollstream (\d+)$", e)
        if m and k > dk:
            polls.setdefault(int(m.group(1)), []).append(k)
    for j, ks in polls.items():
        last = tr.by.get(ks[-1], [])
        if any(x.startswith("N %d" % j) for x in last):
            return "streams: stream %d still pending after the context was dropped" % j
    return None


# ---- C05 / C06 -------------------------------------------------------------------------------------
def completion_monitor(case, lines, strict_content=True):
    """each operation that reached the wire completes at most once, and only after the acknowledgement
    of its own type and identifier was delivered"""
    tr = Trace(case, lines)
    if has(tr, "reconnect"):
        return None
    conn = connection_streams(tr)[0]
    inp, outp = inbound(tr, conn), outbound(tr, conn)
    if inp is None or outp is None:
        return None
    done = tr.done()
    for op, rs in done.items():
        if len(rs) > 1:
            return "once: operation %d completed %d times" % (op, len(rs))
    specs, fp = op_specs(tr), first_polls(tr)
    # packets written in the event of an operation's first poll (or at release) belong to it
    acks_seen = {}
    for k, p in inp:
        i = rx_info(p)
        acks_seen.setdefault((i["t"], i.get("pid")), []).append((k, i))
    pings = sorted([op for op, sp in specs.items() if sp["kind"] == "ping" and op in fp], key=lambda o: fp[o])
    pingresps = sorted(k for k, p in inp if p[0] >> 4 == 13)
    hold = has(tr, "hold")
    for op, rs in done.items():
        k_done, res = rs[0]
        sp = specs.get(op)
        if not sp or op not in fp:
            continue
        own = [i for k, i in outp if k == fp[op] and i["kind"] in ("publish", "subscribe", "unsubscribe")]
        if sp["kind"] == "ping":
            if res == "ok" and not hold:
                n = pings.index(op)
                # the n-th ping still pending completes on the n-th PINGRESP after it was registered
                earlier = [k for k in pingresps if k > fp[op] and k <= k_done]
                if not earlier:
                    return "ownack: ping %d completed without a PINGRESP after it" % op
            continue
        if not own or hold:
            continue
        pkt = own[0]
        pid = pkt.get("pid")
        need = {"subscribe": [9], "unsubscribe": [11]}.get(pkt["kind"]) or ({1: [4], 2: [5, 7], 0: []}[pkt["qos"]])
        ok_res = res.startswith("ok") or res.startswith("err Pub")
        if ok_res and need:
            t_last = 5 if res.startswith("err Pubrec") else need[-1]
            cands = [k for k, i in acks_seen.get((t_last, pid), []) if fp[op] < k <= k_done]
            if not cands:
                return "ownack: operation %d (%s id %s) completed with '%s' before its acknowledgement arrived" % (op, pkt["kind"], pid, res[:30])
            if strict_content:
                i = [i for k, i in acks_seen[(t_last, pid)] if fp[op] < k <= k_done][0]
                m = re.search(r"r=(\d+)", res)
                if res.startswith("err Pub") and (not m or int(m.group(1)) != i["reason"]):
                    return "content: operation %d reports reason %s, its acknowledgement carried %d" % (op, m and m.group(1), i["reason"])
                if res == "ok" and i["reason"] >= 128 and i["t"] in (4, 5, 7):
                    return "content: operation %d succeeded although its acknowledgement carried reason %d" % (op, i["reason"])
    return None


@oracle("C05")
def c05(case, lines):
    return completion_monitor(case, lines)


@oracle("C06")
def c06(case, lines):
    m = completion_monitor(case, lines)
    if m:
        return m
    tr = Trace(case, lines)
    if tr.faulty or has(tr, "reconnect", "dropctx"):
        return None
    conn = connection_streams(tr)[0]
    inp, outp = inbound(tr, conn), outbound(tr, conn)
    if inp is None or outp is None:
        return None
    seen_pub, seen_rel = {}, {}
    okrec = {}
    for k, p in inp:
        i = rx_info(p)
        if i["t"] == 5:
            okrec.setdefault(i["pid"], []).append((k, i["reason"]))
    for k, o in outp:
        if o["kind"] == "publish":
            if o["dup"]:
                return "dup: PUBLISH written with DUP=1 on its first transmission"
            if o["qos"] and not o.get("pid"):
                return "pid: QoS>0 PUBLISH without a packet identifier"
        if o["kind"] == "pubrel":
            recs = [r for kk, r in okrec.get(o["pid"], []) if kk <= k]
            if not recs:
                return "pubrel: PUBREL %d written before any PUBREC for it" % o["pid"]
            if recs[-1] >= 128 and all(r >= 128 for r in recs):
                return "pubrel: PUBREL %d written after a failing PUBREC" % o["pid"]
    # requested content on the wire
    specs, fp = op_specs(tr), first_polls(tr)
    if not has(tr, "hold"):
        for op, sp in specs.items():
            if sp["kind"] != "pub" or op not in fp:
                continue
            mine = [o for k, o in outp if k == fp[op] and o["kind"] == "publish"]
            res = [r for _, r in tr.done().get(op, [])]
            refused = any(x in r for r in res for x in ("QuotaExceeded", "MaximumPacketSize", "Codec", "ContextExited"))
            if len(mine) > 1:
                return "one: publish %d put %d PUBLISH packets on the wire" % (op, len(mine))
            if not mine:
                if res and not refused and "t" in sp["args"] and tr.run_result() is None:
                    return "one: publish %d was not refused but nothing was written" % op
                continue
            o = mine[0]
            a = sp["args"]
            if o["qos"] != int(a.get("q", 0)) or o["retain"] != int(a.get("ret", 0)) or \
               bytes(o["topic"]) != M.unhex(a.get("t", "-")) or bytes(o["payload"]) != M.unhex(a.get("pl", "-")):
                return "content: the PUBLISH of operation %d does not carry the requested qos/retain/topic/payload" % op
    return None


# ---- C07 ------------------------------------------------------------------------------------------
@oracle("C07")
def c07(case, lines):
    tr = Trace(case, lines)
    if tr.faulty or has(tr, "reconnect", "hold"):
        return None
    conn = connection_streams(tr)[0]
    inp = inbound(tr, conn)
    if inp is None:
        return None
    start, end = run_window(tr)
    if end is not None:
        return None
    specs, fp = op_specs(tr), first_polls(tr)
    order = sorted([i for i, o in specs.items() if o["kind"] == "sub" and i in fp and "f" in o["args"]], key=lambda i: fp[i])
    sid_of = {op: n + 1 for n, op in enumerate(order)}
    dropped_at = {}
    for k, e in enumerate(tr.evs):
        m = re.match(r"(dropstream|dropop) (\d+)$", e)
        if m:
            dropped_at.setdefault(int(m.group(2)), k)
    dk = next((k for k, e in enumerate(tr.evs) if e == "dropctx"), None)
    for op in order:
        sid = sid_of[op]
        want = []
        awaiting = set()
        for k, p in inp:
            i = rx_info(p)
            if i["t"] == 6:
                awaiting.discard(i["pid"])
            if i["t"] != 3:
                continue
            redelivery = False
            if i["qos"] == 2:
                redelivery = i["pid"] in awaiting
                awaiting.add(i["pid"])
            if k <= fp[op] or redelivery or (dk is not None and k > dk):
                continue
            if sid in i["subids"]:
                want.append(M.hx(i["payload"]))
        got = []
        for l in lines:
            p = l.split(" ")
            if p[1] == "I" and int(p[2]) == op:
                got.append(kv(" ".join(p[3:]))["pl"])
        if got != want[:len(got)]:
            return "delivery: stream %d yielded %s, its subscription identifier %d was carried by %s" % (op, got[:5], sid, want[:5])
        # a stream polled to Pending must have yielded everything delivered before that poll
        for l in lines:
            p = l.split(" ")
            if p[1] == "E" and int(p[2]) == op and dk is None and op not in dropped_at:
                return "end: stream %d ended although the context is alive" % op
    return None


# ---- C15 ------------------------------------------------------------------------------------------
@oracle("C15")
def c15(case, lines):
    tr = Trace(case, lines)
    rr = tr.run_result()
    if rr is not None and not tr.faulty and not has(tr, "drophandle", "disc") and \
       not any(e.startswith("start") and " disc" in e for e in tr.evs):
        conn = connection_streams(tr)[0]
        inp = inbound(tr, conn)
        if inp is not None and not any(p[0] >> 4 == 14 for _, p in inp):
            return "runsurvives: run() returned %s although only futures/streams were dropped" % rr[1]
    m = completion_monitor(case, lines)
    if m:
        return m
    return c10(case, lines) if not has(tr, "hold") else None


# ---- C16 ------------------------------------------------------------------------------------------
@oracle("C16")
def c16(case, lines):
    return completion_monitor(case, lines, strict_content=False)


# ---- C17 ------------------------------------------------------------------------------------------
@oracle("C17")
def c17(case, lines):
    tr = Trace(case, lines)
    conns = connection_streams(tr)
    if len(conns) != 2:
        return None
    md = next((e for e in tr.evs if e.startswith("markdisc ")), None)
    if md is None:
        return None
    elapsed = int(md.split()[1])
    sei = 0
    m = re.search(r"sei=(\d+)", tr.evs[0])
    if m:
        sei = int(m.group(1))
    expired = sei == 0 or (sei != 4294967295 and elapsed > sei)
    in1, out1 = inbound(tr, conns[0]), outbound(tr, conns[0])
    out2 = outbound(tr, conns[1])
    if in1 is None or out1 is None or out2 is None:
        return None
    # unfinished handshakes of the first connection, in original order
    pending = []
    for k, o in out1:
        if o["kind"] == "publish" and o["qos"] > 0:
            pending.append(("publish", o["pid"], o))
        elif o["kind"] == "pubrel":
            pending.append(("pubrel", o["pid"], o))
    for k, p in in1:
        i = rx_info(p)
        if i["t"] in (4, 5):
            pending = [x for x in pending if not (x[0] == "publish" and x[1] == i["pid"])]
        elif i["t"] == 7:
            pending = [x for x in pending if not (x[0] == "pubrel" and x[1] == i["pid"])]
    run2 = next((k for k, e in enumerate(tr.evs) if e == "run" and k > conns[1]["first"]), None)
    if run2 is None:
        return None
    resent = [(o["kind"], o["pid"], o) for k, o in out2 if k == run2 and o["kind"] in ("publish", "pubrel")]
    want = [] if expired else pending
    head = resent[:len(want)]
    if [(a, b) for a, b, _ in head] != [(a, b) for a, b, _ in want]:
        return "resend: on resumption %s were re-sent, the unfinished handshakes are %s (expired=%s)" % (
            [(a, b) for a, b, _ in resent], [(a, b) for a, b, _ in want], expired)
    for (kind, pid, o), (_, _, orig) in zip(head, want):
        if kind == "publish":
            if not o["dup"]:
                return "resend: re-sent PUBLISH %d without DUP=1" % pid
            if o["raw"][1:] != orig["raw"][1:] or (o["raw"][0] & 0xf7) != (orig["raw"][0] & 0xf7):
                return "resend: re-sent PUBLISH %d differs from the original" % pid
    extra = [(a, b) for a, b, o in resent[len(want):] if a == "pubrel" or o.get("dup")]
    if extra:
        return "resend: packets re-sent beyond the unfinished handshakes: %s" % extra
    if expired:
        # abandoned operations fail instead of hanging
        fp = first_polls(tr)
        for op, k in fp.items():
            if k < conns[1]["first"]:
                last_poll = max(kk for kk, e in enumerate(tr.evs) if re.match(r"f?poll %d$" % op, e))
                if last_poll > run2 and any(x == "P %d" % op for x in tr.by.get(last_poll, [])):
                    sp = op_specs(tr)[op]
                    if sp["args"].get("q", "0") != "0":
                        return "expired: operation %d of the expired session is still pending" % op
    return None


# ---- C03 ------------------------------------------------------------------------------------------
@oracle("C03")
def c03(case, lines):
    tr = Trace(case, lines)
    conn = connection_streams(tr)[0]
    inp = inbound(tr, conn)
    if inp is None:
        return None
    # the observable effect of every inbound packet is independent of chunking: acks written, items yielded
    want_acks, want_items = [], []
    for k, p in inp[1:]:
        i = rx_info(p)
        if i["t"] == 3:
            if i["qos"] == 1:
                want_acks.append(("puback", i["pid"]))
            if i["qos"] == 2:
                want_acks.append(("pubrec", i["pid"]))
            if 1 in i["subids"]:
                pl = bytes(i["payload"])
                want_items.append(M.hx(pl) if len(pl) <= 96 else None)
        elif i["t"] == 6:
            want_acks.append(("pubcomp", i["pid"]))
    outp = outbound(tr, conn)
    if outp is None:
        return "wire: written bytes are not whole packets"
    got_acks = [(o["kind"], o["pid"]) for k, o in outp if o["kind"] in ("puback", "pubrec", "pubcomp")]
    rr = tr.run_result()
    ended = any(e in ("eof", "rerr") for e in tr.evs)
    if rr is not None and not ended:
        return "end: run() returned %s before the transport ended" % rr[1]
    if not ended and got_acks != want_acks:
        return "packets: acknowledgements %s written for inbound packets that require %s" % (got_acks[:5], want_acks[:5])
    # a PINGRESP in the stream completes the ping that is pending throughout
    if not ended and any(rx_info(p)["t"] == 13 for k, p in inp[1:]) and any(e == "poll 9" for e in tr.evs):
        if not any(r.startswith("ok") for _, r in tr.done().get(9, [])):
            return "packets: a PINGRESP was delivered but the pending ping did not complete (%s)" % tr.done().get(9)
    items = [kv(" ".join(l.split(" ")[3:]))["pl"] for l in lines if l.split(" ")[1] == "I"]
    polls = sum(1 for e in tr.evs if e.startswith("pollstream"))
    want = [w for w in want_items][:polls]
    for g, w in zip(items, want):
        if w is not None and g != w:
            return "packets: stream yielded %s where the byte stream carries %s" % (g, w)
    if not ended and len(items) < min(len(want_items), polls):
        return "packets: %d of %d delivered messages were yielded" % (len(items), min(len(want_items), polls))
    return None


# ---- C04: panic / stall only (generic) --------------------------------------------------------------
@oracle("C04")
def c04(case, lines):
    return None


# ---- C01 / C02: the spec decoders extracted from Coq do the work (modelrun spec-*); until then, framing
@oracle("C01")
def c01(case, lines):
    tr = Trace(case, lines)
    for conn in connection_streams(tr):
        if outbound(tr, conn) is None and not tr.faulty:
            return "wire: the bytes written are not a concatenation of whole packets"
    return None


@oracle("C02")
def c02(case, lines):
    return None
