(* Real transports deliver bytes: values below 256.  The model's byte type is N; this file shows that the
   framing layer hands on only what it was given, and that packet identifiers decoded from bytes are u16. *)
From Poster Require Import Model.Client Proofs.BytesP Proofs.ListP.
From Coq Require Import ZArith ZifyN ZifyBool ZifyNat.
Arguments N.add : simpl never. Arguments N.mul : simpl never. Arguments N.sub : simpl never.
Arguments N.ltb : simpl never. Arguments N.leb : simpl never. Arguments N.eqb : simpl never.
Arguments N.min : simpl never. Arguments N.shiftr : simpl never. Arguments N.land : simpl never.

Definition B256 (l : bytes) : Prop := Forall (fun b => b < 256) l.

Lemma B256_app a b : B256 a -> B256 b -> B256 (a ++ b).
Proof. intros. apply Forall_app. auto. Qed.
Lemma in_firstn {A} n (l : list A) x : In x (firstn n l) -> In x l.
Proof. revert l; induction n as [|n IH]; intros [|a l]; cbn; try tauto. intros [H|H]; [left; exact H|right; apply IH; exact H]. Qed.
Lemma in_skipn {A} n (l : list A) x : In x (skipn n l) -> In x l.
Proof. revert l; induction n as [|n IH]; intros [|a l]; cbn; try tauto. intros H. right. apply IH. exact H. Qed.
Lemma B256_takeN n l : B256 l -> B256 (takeN n l).
Proof. unfold B256, takeN. rewrite !Forall_forall. intros H x Hx. apply H. eapply in_firstn. exact Hx. Qed.
Lemma B256_dropN n l : B256 l -> B256 (dropN n l).
Proof. unfold B256, dropN. rewrite !Forall_forall. intros H x Hx. apply H. eapply in_skipn. exact Hx. Qed.
Lemma B256_repeat0 n : B256 (repeat 0 n).
Proof. unfold B256. apply Forall_forall. intros x Hx. apply repeat_spec in Hx. subst. reflexivity. Qed.
Lemma B256_tl l : B256 l -> B256 (tl l).
Proof. destruct l; [auto|]. intros H. inversion H. assumption. Qed.

(* ---- the lazily padded buffer ------------------------------------------------------------------------------- *)
Definition ZB (b : zbuf) : Prop := B256 (zd b).
Lemma ZB_resize n b : ZB b -> ZB (zresize n b).
Proof. unfold ZB, zresize. intros H. destruct (n <=? lenN (zd b)); cbn [zd]; [apply B256_takeN|]; exact H. Qed.
Lemma ZB_fill at_ d b : ZB b -> B256 d -> ZB (zfill at_ d b).
Proof.
  unfold ZB, zfill. intros H Hd. destruct (at_ <=? lenN (zd b)); cbn [zd].
  - apply B256_app; [apply B256_takeN; exact H|]. apply B256_app; [exact Hd|apply B256_dropN; exact H].
  - apply B256_app; [exact H|]. apply B256_app; [apply B256_repeat0|exact Hd].
Qed.
Lemma B256_ztake n b : ZB b -> B256 (ztake n b).
Proof.
  unfold ZB, ztake. intros H. destruct (n <=? lenN (zd b)); [apply B256_takeN; exact H|].
  apply B256_app; [exact H|apply B256_repeat0].
Qed.
Lemma ZB_drop n b : ZB b -> ZB (zdrop n b).
Proof. unfold ZB, zdrop. intros H. destruct (n <=? lenN (zd b)); cbn [zd]; [apply B256_dropN; exact H|constructor]. Qed.

(* ---- the transport and one framing poll ------------------------------------------------------------------------- *)
Definition RB (rd : reader) : Prop := Forall B256 (segs rd).
Lemma read_B256 cap rd : RB rd ->
  match read cap rd with (RGot d, rd') => B256 d /\ RB rd' | (_, rd') => RB rd' end.
Proof.
  unfold RB, read. intros H. destruct (segs rd) as [|s rest] eqn:E.
  - destruct (r_err rd || r_eof rd); rewrite E; constructor.
  - inversion H as [|? ? Hs Hr]; subst. split; [apply B256_takeN; exact Hs|]. cbn [segs].
    destruct (N.min cap (lenN s) <? lenN s); [constructor; [apply B256_dropN; exact Hs|exact Hr]|exact Hr].
Qed.
Lemma fpoll_B256 fuel : forall x rd, ZB (buf x) -> RB rd ->
  match fpoll fuel x rd with
  | (FItem p, x', rd') => B256 p /\ ZB (buf x') /\ RB rd'
  | (_, x', rd') => ZB (buf x') /\ RB rd'
  end.
Proof.
  induction fuel as [|fuel IH]; intros x rd Hz Hr; cbn [fpoll]; [auto|].
  destruct (fstate x).
  - pose proof (read_B256 (if pend x - size x <? 512 then 512 else pend x) rd Hr) as Hrd.
    destruct (read _ rd) as [[d| |] rd']; cbn [buf]; try (split; [apply ZB_resize; exact Hz|exact Hrd]).
    destruct Hrd as [Hd Hr']. destruct (lenN d =? 0); [split; [apply ZB_resize; exact Hz|exact Hr']|].
    apply IH; [cbn [buf]; apply ZB_fill; [apply ZB_resize; exact Hz|exact Hd]|exact Hr'].
  - destruct (vdec _); try (apply IH; assumption); auto.
  - destruct (size x <? pend x); [apply IH; assumption|]. cbn [buf].
    split; [apply B256_ztake; exact Hz|]. split; [apply ZB_drop; exact Hz|exact Hr].
Qed.

(* ---- identifiers decoded from bytes are u16 ------------------------------------------------------------------------ *)
Lemma dec_u16_range bs n : B256 bs -> dec_u16 bs = Ok n -> n < 65536.
Proof.
  destruct bs as [|a [|b r]]; cbn [dec_u16]; try discriminate. intros H E. inversion E; subst.
  inversion H as [|? ? Ha H']; subst. inversion H' as [|? ? Hb _]; subst. lia.
Qed.
Lemma step_pid_range bs pid r : B256 bs -> step_pid bs = Ok (pid, r) -> pid < 65536 /\ B256 r.
Proof.
  unfold step_pid, try_dec. intros H. destruct (nonzero (dec_u16 bs)) as [n| |] eqn:E; cbn [bind]; try discriminate.
  destruct (two n <=? lenN bs); [|discriminate]. intros E2. inversion E2; subst. split; [|apply B256_dropN; exact H].
  apply nonzero_ok in E. eapply dec_u16_range; eassumption.
Qed.
Lemma try_dec_B256 {A} (dec : bytes -> res A) blen bs a r : B256 bs -> try_dec dec blen bs = Ok (a, r) -> B256 r.
Proof.
  unfold try_dec. intros H. destruct (dec bs); cbn [bind]; try discriminate. destruct (blen _ <=? lenN bs); [|discriminate].
  intros E. inversion E; subst. apply B256_dropN. exact H.
Qed.

Ltac bind_inv H :=
  repeat match type of H with
  | bind ?r _ = Ok _ => let E := fresh "E" in destruct r as [[? ?]| |] eqn:E; cbn [bind] in H; try discriminate
  | (if ?b then _ else _) = Ok _ => let E := fresh "Eb" in destruct b eqn:E; try discriminate
  end.

Lemma dec_ack_pid k hdr tbl bs p : B256 bs -> dec_ack k hdr tbl bs = Ok p -> r_pid p < 65536.
Proof.
  intros HB H. unfold dec_ack in H.
  destruct (step_u8 bs) as [[h r]| |] eqn:E1; cbn [bind] in H; try discriminate.
  destruct (negb (h =? hdr)); [discriminate|].
  destruct (step_var r) as [[rl r2]| |] eqn:E2; cbn [bind] in H; try discriminate.
  destruct (lenN r2 <? fst rl); [discriminate|].
  destruct (step_pid r2) as [[pid r3]| |] eqn:E3; cbn [bind] in H; try discriminate.
  assert (HB2 : B256 r2).
  { unfold step_var in E2. eapply try_dec_B256; [|exact E2]. unfold step_u8 in E1. eapply try_dec_B256; eassumption. }
  destruct (step_pid_range _ _ _ HB2 E3) as [Hp _].
  destruct (fst rl =? 2); [inversion H; exact Hp|].
  destruct (step_reason tbl r3) as [[reason r4]| |]; cbn [bind] in H; try discriminate.
  destruct (fst rl <? 4); [inversion H; exact Hp|].
  destruct (step_var r4) as [[pl r5]| |]; cbn [bind] in H; try discriminate.
  destruct (lenN r5 <? fst pl); [discriminate|].
  destruct (checked_props [31; 38] r5); cbn [bind] in H; try discriminate. inversion H. exact Hp.
Qed.
Lemma dec_suback_pid k hdr tbl bs p : B256 bs -> dec_suback k hdr tbl bs = Ok p -> r_pid p < 65536.
Proof.
  intros HB H. unfold dec_suback in H.
  destruct (step_u8 bs) as [[h r]| |] eqn:E1; cbn [bind] in H; try discriminate.
  destruct (negb (h =? hdr)); [discriminate|].
  destruct (step_var r) as [[rl r2]| |] eqn:E2; cbn [bind] in H; try discriminate.
  destruct (lenN r2 <? fst rl); [discriminate|].
  destruct (step_pid r2) as [[pid r3]| |] eqn:E3; cbn [bind] in H; try discriminate.
  assert (HB2 : B256 r2).
  { unfold step_var in E2. eapply try_dec_B256; [|exact E2]. unfold step_u8 in E1. eapply try_dec_B256; eassumption. }
  destruct (step_pid_range _ _ _ HB2 E3) as [Hp _].
  destruct (step_var r3) as [[pl r4]| |]; cbn [bind] in H; try discriminate.
  destruct (lenN r4 <? fst pl); [discriminate|].
  destruct (checked_props [31; 38] _); cbn [bind] in H; try discriminate.
  destruct (dec_codes tbl _); cbn [bind] in H; try discriminate. inversion H. exact Hp.
Qed.
Lemma dec_publish_pid bs p : B256 bs -> dec_publish bs = Ok p -> r_pid p < 65536.
Proof.
  intros HB H. unfold dec_publish in H.
  destruct (step_u8 bs) as [[h r]| |] eqn:E1; cbn [bind] in H; try discriminate.
  destruct (negb (N.shiftr h 4 =? 3)); [discriminate|]. cbv zeta in H.
  destruct (2 <? N.land (N.shiftr h 1) 3); [discriminate|].
  destruct (step_var r) as [[rl r2]| |] eqn:E2; cbn [bind] in H; try discriminate.
  destruct (lenN r2 <? fst rl); [discriminate|].
  destruct (try_dec dec_str blen_bin r2) as [[topic r3]| |] eqn:E3; cbn [bind] in H; try discriminate.
  assert (HB3 : B256 r3).
  { eapply try_dec_B256; [|exact E3]. unfold step_var in E2. eapply try_dec_B256; [|exact E2].
    unfold step_u8 in E1. eapply try_dec_B256; eassumption. }
  destruct (0 <? N.land (N.shiftr h 1) 3).
  - destruct (step_pid r3) as [[pid r4]| |] eqn:E4; cbn [bind] in H; try discriminate.
    destruct (step_pid_range _ _ _ HB3 E4) as [Hp _].
    destruct (step_var r4) as [[pl r5]| |]; cbn [bind] in H; try discriminate.
    destruct (lenN r5 <? fst pl); [discriminate|].
    destruct (checked_props publish_allowed _); cbn [bind] in H; try discriminate. inversion H. exact Hp.
  - cbn [bind] in H. destruct (step_var r3) as [[pl r5]| |]; cbn [bind] in H; try discriminate.
    destruct (lenN r5 <? fst pl); [discriminate|].
    destruct (checked_props publish_allowed _); cbn [bind] in H; try discriminate. inversion H. cbn. lia.
Qed.
Lemma dec_connack_pid bs p : dec_connack bs = Ok p -> r_pid p < 65536.
Proof.
  intros H. unfold dec_connack in H.
  destruct (step_u8 bs) as [[h0 r0]| |]; cbn [bind] in H; try discriminate.
  destruct (negb (N.shiftr h0 4 =? 2)); [discriminate|].
  destruct (step_var r0) as [[rl r2]| |]; cbn [bind] in H; try discriminate.
  destruct (lenN bs <? 1 + snd rl + fst rl); [discriminate|].
  destruct (try_dec dec_bool one r2) as [[sp r3]| |]; cbn [bind] in H; try discriminate.
  destruct (step_reason connect_reasons r3) as [[rs r4]| |]; cbn [bind] in H; try discriminate.
  destruct (step_var r4) as [[pl r5]| |]; cbn [bind] in H; try discriminate.
  destruct (lenN r5 <? fst pl); [discriminate|].
  destruct (checked_props connack_allowed r5); cbn [bind] in H; try discriminate. inversion H. cbn. lia.
Qed.
Lemma dec_pingresp_pid bs p : dec_pingresp bs = Ok p -> r_pid p < 65536.
Proof.
  intros H. unfold dec_pingresp in H. destruct (step_u8 bs) as [[h0 r0]| |]; cbn [bind] in H; try discriminate.
  destruct (negb (h0 =? 208)); [discriminate|]. inversion H. cbn. lia.
Qed.
Lemma dec_disconnect_pid bs p : dec_disconnect bs = Ok p -> r_pid p < 65536.
Proof.
  intros H. unfold dec_disconnect in H.
  destruct (step_u8 bs) as [[h0 r0]| |]; cbn [bind] in H; try discriminate.
  destruct (negb (h0 =? 224)); [discriminate|].
  destruct (step_var r0) as [[rl r2]| |]; cbn [bind] in H; try discriminate.
  destruct (lenN r2 <? fst rl); [discriminate|]. destruct (fst rl =? 0); [inversion H; cbn; lia|].
  destruct (step_reason disconnect_reasons r2) as [[rs r4]| |]; cbn [bind] in H; try discriminate.
  destruct (lenN r4 =? 0); [inversion H; cbn; lia|].
  destruct (step_var r4) as [[pl r5]| |]; cbn [bind] in H; try discriminate.
  destruct (lenN r5 <? fst pl); [discriminate|].
  destruct (checked_props [31; 28; 38] r5); cbn [bind] in H; try discriminate. inversion H. cbn. lia.
Qed.
Lemma dec_auth_pid bs p : dec_auth bs = Ok p -> r_pid p < 65536.
Proof.
  intros H. unfold dec_auth in H.
  destruct (step_u8 bs) as [[h0 r0]| |]; cbn [bind] in H; try discriminate.
  destruct (negb (h0 =? 240)); [discriminate|].
  destruct (step_var r0) as [[rl r2]| |]; cbn [bind] in H; try discriminate.
  destruct (fst rl =? 0); [inversion H; cbn; lia|]. destruct (lenN bs <? fst rl); [discriminate|].
  destruct (step_reason auth_reasons r2) as [[rs r4]| |]; cbn [bind] in H; try discriminate.
  destruct (step_var r4) as [[pl r5]| |]; cbn [bind] in H; try discriminate.
  destruct (lenN r5 <? fst pl); [discriminate|].
  destruct (checked_props [21; 22; 31; 38] r5) as [ps| |]; cbn [bind] in H; try discriminate.
  cbv zeta in H. destruct (negb _ && isNone _); [discriminate|]. inversion H. cbn. lia.
Qed.
Theorem dec_packet_pid bs p : B256 bs -> dec_packet bs = Ok p -> r_pid p < 65536.
Proof.
  intros HB H. destruct bs as [|h r]; [discriminate|]. cbn [dec_packet] in H.
  destruct (N.shiftr h 4) as [|q]; [cbv iota in H; discriminate H|].
  repeat match type of H with context [match ?x with _ => _ end] => is_var x; destruct x; cbv iota in H; try discriminate H end;
    first [eapply dec_ack_pid; eassumption | eapply dec_suback_pid; eassumption | eapply dec_publish_pid; eassumption
          | eapply dec_connack_pid; eassumption | eapply dec_pingresp_pid; eassumption
          | eapply dec_disconnect_pid; eassumption | eapply dec_auth_pid; eassumption].
Qed.
