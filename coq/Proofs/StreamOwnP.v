(* C14 for subscription streams, over every history: a stream whose sender is alive has that sender held by the live
   Context - registered under a subscription identifier, or travelling in a queued subscribe request - so once the
   Context is gone every stream's sender is gone and a stream never hangs: it yields what is buffered, then ends. *)
From Poster Require Import Model.Sim Proofs.BytesP Proofs.ClientP Proofs.HandshakeP Proofs.SimInvP Proofs.OwnP Proofs.StreamP.
Arguments N.add : simpl never. Arguments N.mul : simpl never. Arguments N.sub : simpl never.
Arguments N.ltb : simpl never. Arguments N.leb : simpl never. Arguments N.eqb : simpl never.

(* ---- association lists under a map of the values ----------------------------------------------------------------------- *)
Definition amap {A B} (g : A -> B) (l : list (N * A)) : list (N * B) := map (fun e => (fst e, g (snd e))) l.
Lemma alookup_amap {A B} (g : A -> B) k l : alookup k (amap g l) = option_map g (alookup k l).
Proof. induction l as [|[k' a] l IH]; cbn [amap map alookup fst snd]; [reflexivity|]. destruct (k' =? k); [reflexivity|exact IH]. Qed.
Lemma amap_aset {A B} (g : A -> B) k a l : amap g (aset k a l) = aset k (g a) (amap g l).
Proof.
  induction l as [|[k' a'] l IH]; cbn [amap map aset fst snd]; [reflexivity|].
  destruct (k' =? k); cbn [map fst snd]; [reflexivity|]. f_equal. exact IH.
Qed.
Lemma amap_aremove {A B} (g : A -> B) k l : amap g (aremove k l) = aremove k (amap g l).
Proof.
  induction l as [|[k' a'] l IH]; cbn [amap map aremove fst snd]; [reflexivity|].
  destruct (k' =? k); cbn [map fst snd]; [reflexivity|]. f_equal. exact IH.
Qed.
Lemma aset_same {A} k (a : A) l : alookup k l = Some a -> aset k a l = l.
Proof.
  induction l as [|[k' a'] l IH]; cbn [alookup aset]; [discriminate|]. destruct (k' =? k) eqn:E.
  - apply N.eqb_eq in E. intros H. inversion H. subst. reflexivity.
  - intros H. rewrite (IH H). reflexivity.
Qed.
Lemma in_aremove_other {A} (k k0 : N) (v v0 : A) l : In (k, v) l -> alookup k0 l = Some v0 -> v <> v0 -> In (k, v) (aremove k0 l).
Proof.
  intros Hin Hl Hne. destruct (in_aremove (k, v) k0 l Hin) as [H|[H1 H2]]; [exact H|].
  cbn [fst snd] in *. rewrite Hl in H2. inversion H2. congruence.
Qed.

(* ---- the sender view -------------------------------------------------------------------------------------------------- *)
Definition sv (s : sys) : list (N * bool) := amap st_sender (streams s).
Definition sview (s : sys) := (sv s, subs (c s), msgq s, ctx_alive s).
Definition held (s : sys) (j : N) : Prop :=
  (exists sid, In (sid, j) (subs (c s))) \/ (exists a sid pkt, In (MSub j a sid pkt) (msgq s)).
Definition SOwn (s : sys) : Prop := forall j, alookup j (sv s) = Some true -> ctx_alive s = true /\ held s j.
Definition SI (s : sys) : Prop := SOwn s /\ NoDup (map fst (sv s)).

Lemma SI_view s s' : sview s' = sview s -> SI s -> SI s'.
Proof.
  unfold sview. intros H. injection H as H1 H2 H3 H4. unfold SI, SOwn, held. rewrite H1, H2, H3, H4. auto.
Qed.

(* s' keeps every live sender of s held: no sender comes alive, holders of live senders stay *)
Definition SLe (s s' : sys) : Prop :=
  ctx_alive s' = ctx_alive s /\
  (forall j, alookup j (sv s') = Some true -> alookup j (sv s) = Some true /\ (held s j -> held s' j)) /\
  (NoDup (map fst (sv s)) -> NoDup (map fst (sv s'))).
Lemma SI_le s s' : SLe s s' -> SI s -> SI s'.
Proof.
  intros (Ha & Hk & Hn) [Ho Hd]. split; [|apply Hn; exact Hd].
  intros j Hj. destruct (Hk j Hj) as [H0 Hh]. destruct (Ho j H0) as [H1 H2]. rewrite Ha. split; [exact H1|apply Hh; exact H2].
Qed.
Lemma SLe_view s s' : sview s' = sview s -> SLe s s'.
Proof.
  unfold sview. intros H. injection H as H1 H2 H3 H4. unfold SLe, held. rewrite H1, H2, H3, H4. repeat split; auto.
Qed.
Lemma SLe_trans a b d : SLe a b -> SLe b d -> SLe a d.
Proof.
  intros (A1 & A2 & A3) (B1 & B2 & B3). split; [congruence|]. split; [|auto].
  intros j Hj. destruct (B2 j Hj) as [H0 Hh]. destruct (A2 j H0) as [H1 Hh1]. auto.
Qed.

(* ---- who touches the sender view ------------------------------------------------------------------------------------------ *)
Lemma sview_complete s i ph v : sview (complete s i ph v) = sview s.
Proof. unfold complete. destruct (alookup i (ops s)); reflexivity. Qed.
Lemma sview_cancel s i ph : sview (cancel s i ph) = sview s.
Proof. unfold cancel. destruct (alookup i (ops s)); reflexivity. Qed.
Lemma sview_write s p : sview (fst (write s p)) = sview s.
Proof. unfold write. destruct (wbudget s); [destruct (_ <=? _)|]; reflexivity. Qed.
Lemma sview_ack_waiter s a p : sview (ack_waiter s a p) = sview s.
Proof. unfold ack_waiter. destruct (alookup a (awaiting (c s))) as [[i ph]|]; [|reflexivity]. rewrite sview_complete. reflexivity. Qed.
Lemma sview_drop_recv s j : sview (drop_recv s j) = sview s.
Proof.
  unfold drop_recv. destruct (alookup j (streams s)) as [st|] eqn:E; [|reflexivity].
  unfold sview, sv. cbn [streams set_streams c msgq ctx_alive]. rewrite amap_aset. cbn [st_sender].
  rewrite aset_same; [reflexivity|]. rewrite alookup_amap, E. reflexivity.
Qed.

Lemma sv_close s j : sv (close_stream_sender s j) = match alookup j (streams s) with Some _ => aset j false (sv s) | None => sv s end.
Proof.
  unfold close_stream_sender. destruct (alookup j (streams s)) as [st|]; [|reflexivity].
  unfold sv. cbn [streams set_streams]. rewrite amap_aset. reflexivity.
Qed.
Lemma close_rest s j : subs (c (close_stream_sender s j)) = subs (c s) /\ msgq (close_stream_sender s j) = msgq s /\
  ctx_alive (close_stream_sender s j) = ctx_alive s.
Proof. unfold close_stream_sender. destruct (alookup j (streams s)); auto. Qed.
Lemma SLe_close s j : SLe s (close_stream_sender s j).
Proof.
  destruct (close_rest s j) as (H1 & H2 & H3). split; [exact H3|]. split.
  - intros j' Hj'. rewrite sv_close in Hj'. unfold held. rewrite H1, H2.
    destruct (alookup j (streams s)) as [st|] eqn:E; [|auto].
    rewrite alookup_aset in Hj'. destruct (j =? j') eqn:Ej; [discriminate|]. auto.
  - intros Hn. rewrite sv_close. destruct (alookup j (streams s)) as [st|] eqn:E; [|exact Hn].
    apply aset_keys. exact Hn.
Qed.
(* after closing j, j is not alive *)
Lemma close_dead s j : alookup j (sv (close_stream_sender s j)) <> Some true.
Proof.
  rewrite sv_close. destruct (alookup j (streams s)) as [st|] eqn:E.
  - rewrite alookup_aset_same. discriminate.
  - unfold sv. rewrite alookup_amap, E. discriminate.
Qed.

(* ---- inbound packets ---------------------------------------------------------------------------------------------------- *)
Lemma SLe_dispatch s sid p : SLe s (dispatch s sid p).
Proof.
  unfold dispatch. destruct (alookup sid (subs (c s))) as [j|] eqn:Es; [|apply SLe_view; reflexivity].
  destruct (alookup j (streams s)) as [st|] eqn:Et.
  - destruct (st_recv st).
    + apply SLe_view. unfold sview, sv. cbn [streams set_streams c msgq ctx_alive]. rewrite amap_aset. cbn [st_sender].
      rewrite aset_same; [reflexivity|]. rewrite alookup_amap, Et. reflexivity.
    + (* receiver gone: the registration is removed and the sender dropped *)
      set (s1 := set_c s (with_subs (c s) (aremove sid (subs (c s))))).
      destruct (close_rest s1 j) as (H1 & H2 & H3). split; [exact H3|]. split.
      * intros j' Hj'. assert (Hne : j' <> j) by (intros ->; exact (close_dead s1 j Hj')).
        rewrite sv_close in Hj'. change (streams s1) with (streams s) in Hj'. rewrite Et in Hj'. change (sv s1) with (sv s) in Hj'.
        rewrite alookup_aset_other in Hj' by exact Hne. split; [exact Hj'|].
        unfold held. rewrite H1, H2. cbn [s1 c set_c subs with_subs msgq].
        intros [[sid' Hin]|Hq]; [left; exists sid'; eapply in_aremove_other; eauto|right; exact Hq].
      * intros Hn. rewrite sv_close. change (streams s1) with (streams s). rewrite Et. apply aset_keys. exact Hn.
  - (* no such stream any more: the registration is removed *)
    split; [reflexivity|]. split; [|auto].
    intros j' Hj'. change (sv (set_c s _)) with (sv s) in Hj'. split; [exact Hj'|].
    assert (Hne : j' <> j). { intros ->. unfold sv in Hj'. rewrite alookup_amap, Et in Hj'. discriminate. }
    unfold held. cbn [c set_c subs with_subs msgq].
    intros [[sid' Hin]|Hq]; [left; exists sid'; eapply in_aremove_other; eauto|right; exact Hq].
Qed.

Lemma SLe_handle_packet s p : SLe s (fst (handle_packet s p)).
Proof.
  unfold handle_packet. cbv zeta. destruct (rk p); cbn [fst];
    try (apply SLe_view; rewrite ?sview_ack_waiter, ?sview_write; unfold bump_quota;
         repeat match goal with |- context [if ?b then _ else _] => destruct b end; reflexivity).
  - (* publish *)
    set (red := (r_qos p =? 2) && memN (r_pid p) (await_rel (c s))).
    set (s1 := if (r_qos p =? 2) && negb red then set_c s (with_rel (c s) (await_rel (c s) ++ [r_pid p])) else s).
    assert (H1 : SLe s s1) by (apply SLe_view; unfold s1; destruct ((r_qos p =? 2) && negb red); reflexivity).
    set (s2 := if red then s1 else match pub_subid p with Some sid => dispatch s1 sid p | None => s1 end).
    assert (H2 : SLe s s2).
    { unfold s2. destruct red; [exact H1|]. destruct (pub_subid p); [|exact H1]. eapply SLe_trans; [exact H1|apply SLe_dispatch]. }
    destruct (r_qos p =? 0); cbn [fst]; [exact H2|]. eapply SLe_trans; [exact H2|]. apply SLe_view. apply sview_write.
Qed.

(* ---- a request taken from the queue ------------------------------------------------------------------------------------- *)
Lemma SI_message s m q : SI s -> msgq s = m :: q -> SI (fst (handle_message (set_msgq s q) m)).
Proof.
  intros [Ho Hn] Hq. set (s0 := set_msgq s q).
  (* every handler result that leaves streams and subs alone and the queue at q *)
  assert (Hplain : forall s', sview s' = sview s0 -> (forall i a sid pkt, m <> MSub i a sid pkt) -> SI s').
  { intros s' Hv Hm. eapply SI_view; [exact Hv|]. split; [|exact Hn].
    intros j Hj. destruct (Ho j Hj) as [Ha Hh]. split; [exact Ha|].
    destruct Hh as [Hs|(a & sid & pkt & Hin)]; [left; exact Hs|right]. rewrite Hq in Hin. destruct Hin as [He|Hin].
    - exfalso. eapply Hm. exact He.
    - exists a, sid, pkt. exact Hin. }
  unfold handle_message. cbv zeta. destruct m as [i p|i ph a p|i a sid p].
  - assert (Hm : forall i0 a0 sid0 pkt0, MFire i p <> MSub i0 a0 sid0 pkt0) by (intros; discriminate).
    destruct (negb (size_ok (c s0) p)); cbn [fst]; [apply Hplain; [apply sview_complete|exact Hm]|].
    destruct (negb (snd (write s0 p))); cbn [fst]; (apply Hplain; [|exact Hm]);
      rewrite ?sview_cancel, ?sview_complete, sview_write; reflexivity.
  - assert (Hm : forall i0 a0 sid0 pkt0, MAwait i ph a p <> MSub i0 a0 sid0 pkt0) by (intros; discriminate).
    destruct (negb (size_ok (c s0) p)); cbn [fst]; [apply Hplain; [apply sview_complete|exact Hm]|].
    destruct (ptype_of p =? 3).
    + destruct (quota (c s0) =? 0); cbn [fst]; [apply Hplain; [apply sview_complete|exact Hm]|].
      destruct (negb (snd (write _ p))); cbn [fst]; (apply Hplain; [|exact Hm]).
      * rewrite sview_cancel, sview_write. reflexivity.
      * match goal with |- sview (set_c ?x _) = _ => change (sview (set_c x _)) with (sview x) end. rewrite sview_write. reflexivity.
    + destruct (ptype_of p =? 6); destruct (negb (snd (write s0 p))); cbn [fst]; (apply Hplain; [|exact Hm]);
        try (rewrite sview_cancel, sview_write; reflexivity);
        match goal with |- sview (set_c ?x _) = _ => change (sview (set_c x _)) with (sview x) end; rewrite sview_write; reflexivity.
  - (* the subscribe request: refused -> its sender is dropped; accepted -> registered *)
    destruct (negb (size_ok (c s0) p)); cbn [fst].
    + set (s1 := complete s0 i 1 CTooBig).
      assert (Hv1 : sview s1 = sview s0) by apply sview_complete.
      unfold sview in Hv1. injection Hv1 as V1 V2 V3 V4.
      destruct (close_rest s1 i) as (R1 & R2 & R3).
      split.
      * intros j Hj. assert (Hne : j <> i) by (intros ->; exact (close_dead s1 i Hj)).
        assert (Hj0 : alookup j (sv s) = Some true).
        { rewrite sv_close in Hj. destruct (alookup i (streams s1)); [rewrite alookup_aset_other in Hj by exact Hne|]; rewrite V1 in Hj; exact Hj. }
        destruct (Ho j Hj0) as [Ha Hh]. rewrite R3, V4. split; [exact Ha|].
        unfold held. rewrite R1, R2, V2, V3. cbn [s0 c msgq set_msgq].
        destruct Hh as [Hs|(a' & sid' & pkt' & Hin)]; [left; exact Hs|right]. rewrite Hq in Hin. destruct Hin as [He|Hin].
        -- inversion He. congruence.
        -- exists a', sid', pkt'. exact Hin.
      * rewrite sv_close. destruct (alookup i (streams s1)); rewrite V1; [apply aset_keys|]; exact Hn.
    + match goal with |- SI (fst (write ?x p)) => set (s1 := x) end.
      eapply SI_view; [apply sview_write|]. split; [|exact Hn].
      intros j Hj. change (sv s1) with (sv s) in Hj. destruct (Ho j Hj) as [Ha Hh]. split; [exact Ha|].
      unfold held. cbn [s1 s0 c set_c subs with_subs with_awaiting msgq set_msgq].
      destruct Hh as [[sid' Hs]|(a' & sid' & pkt' & Hin)]; [left; exists sid'; apply in_or_app; left; exact Hs|].
      rewrite Hq in Hin. destruct Hin as [He|Hin].
      -- injection He as E1 _ _ _. left. exists sid. apply in_or_app. right. left. rewrite E1. reflexivity.
      -- right. exists a', sid', pkt'. exact Hin.
Qed.


(* ---- the run loop ------------------------------------------------------------------------------------------------------- *)
Lemma SI_exit s r : SI s -> SI (exit_run s r).
Proof. apply SI_view. reflexivity. Qed.
Lemma SI_run_turn s : SI s -> SI (fst (run_turn s)).
Proof.
  intros HI. unfold run_turn. destruct (fpoll (poll_fuel (rd s)) (fr s) (rd s)) as [[o f] r].
  assert (HI1 : SI (set_io s r f)) by (eapply SI_view; [|exact HI]; reflexivity).
  destruct o as [bs| | | |]; cbn [fst]; try (apply SI_exit; exact HI1).
  - destruct (dec_packet bs) as [p| |]; try (cbn [fst]; apply SI_exit; exact HI1).
    assert (HI2 : SI (fst (handle_packet (set_io s r f) p))) by (eapply SI_le; [apply SLe_handle_packet|exact HI1]).
    destruct (handle_packet (set_io s r f) p) as [s1 a]. cbn [fst] in *. destruct a; cbn [fst]; [exact HI2|apply SI_exit; exact HI2].
  - destruct (msgq (set_io s r f)) as [|m q] eqn:Eq.
    + destruct (live_senders (set_io s r f) =? 0); cbn [fst]; [apply SI_exit|]; exact HI1.
    + pose proof (SI_message (set_io s r f) m q HI1 Eq) as HI2.
      destruct (handle_message (set_msgq (set_io s r f) q) m) as [s1 a]. cbn [fst] in *.
      destruct a; cbn [fst]; [exact HI2|apply SI_exit; exact HI2].
Qed.
Lemma SI_conn_turn s : SI s -> SI (conn_turn s).
Proof.
  intros HI. unfold conn_turn. destruct (fpoll (poll_fuel (rd s)) (fr s) (rd s)) as [[o f] r].
  destruct o as [bs| | | |]; try (eapply SI_view; [|exact HI]; reflexivity).
  destruct (dec_packet bs) as [p| |]; try (eapply SI_view; [|exact HI]; reflexivity).
  destruct (rk p); eapply SI_view; try exact HI; reflexivity.
Qed.
Lemma SI_settle_loop fuel : forall s, SI s -> SI (settle_loop fuel s).
Proof.
  induction fuel as [|fuel IH]; intros s HI; cbn [settle_loop]; [exact HI|].
  destruct (cph s); [exact HI|apply SI_conn_turn; exact HI|].
  pose proof (SI_run_turn s HI) as H. destruct (run_turn s) as [s1 t]. cbn [fst] in H. destruct t; [exact H|apply IH; exact H].
Qed.
Lemma SI_settle s : SI s -> SI (settle s).
Proof. intros HI. unfold settle. destruct (hold s || negb (ctx_alive s)); [exact HI|apply SI_settle_loop; exact HI]. Qed.

(* ---- dropping senders wholesale: session reset and drop(Context) --------------------------------------------------------------- *)
Lemma fold_cancel_view {A} (f : A -> N * N) (l : list A) : forall s,
  sview (fold_left (fun s e => cancel s (fst (f e)) (snd (f e))) l s) = sview s.
Proof. induction l as [|e l IH]; intros s; cbn [fold_left]; [reflexivity|]. rewrite IH. apply sview_cancel. Qed.
(* closing every stream of a list of registrations *)
Lemma fold_close (l : list (N * N)) : forall s,
  let s' := fold_left (fun s e => close_stream_sender s (snd e)) l s in
  SLe s s' /\ subs (c s') = subs (c s) /\ msgq s' = msgq s /\
  (forall sid j, In (sid, j) l -> alookup j (sv s') <> Some true).
Proof.
  induction l as [|[sid0 j0] l IH]; intros s; cbn [fold_left snd].
  - split; [apply SLe_view; reflexivity|]. repeat split; auto; intros sid j [].
  - destruct (IH (close_stream_sender s j0)) as (H1 & H2 & H3 & H4). destruct (close_rest s j0) as (R1 & R2 & R3).
    split; [eapply SLe_trans; [apply SLe_close|exact H1]|]. split; [congruence|]. split; [congruence|].
    intros sid j [He|Hin]; [|eapply H4; exact Hin]. inversion He; subst. intros Hj.
    destruct H1 as (_ & Hk & _). destruct (Hk j Hj) as [Hj0 _]. exact (close_dead s j Hj0).
Qed.

Lemma SI_reset_session s : SI s -> SI (reset_session s).
Proof.
  intros [Ho Hn]. unfold reset_session. cbv zeta.
  set (s1 := fold_left (fun s e => cancel s (fst (snd e)) (snd (snd e))) (awaiting (c s)) s).
  assert (Hv1 : sview s1 = sview s) by (apply (fold_cancel_view (fun e : N * (N * N) => snd e))).
  unfold sview in Hv1. injection Hv1 as V1 V2 V3 V4.
  destruct (fold_close (subs (c s1)) s1) as (H1 & H2 & H3 & H4).
  set (s2 := fold_left (fun s e => close_stream_sender s (snd e)) (subs (c s1)) s1) in *.
  destruct H1 as (A1 & A2 & A3). split.
  - intros j Hj. change (sv (set_c s2 _)) with (sv s2) in Hj. destruct (A2 j Hj) as [Hj1 _]. rewrite V1 in Hj1.
    destruct (Ho j Hj1) as [Ha Hh]. cbn [ctx_alive set_c]. rewrite A1, V4. split; [exact Ha|].
    destruct Hh as [[sid Hs]|Hq].
    + exfalso. rewrite <- V2 in Hs. exact (H4 sid j Hs Hj).
    + right. cbn [msgq set_c]. rewrite H3, V3. exact Hq.
  - change (sv (set_c s2 _)) with (sv s2). apply A3. rewrite V1. exact Hn.
Qed.

Lemma drop_msg_le s m : SLe s (drop_msg s m) /\ subs (c (drop_msg s m)) = subs (c s) /\ msgq (drop_msg s m) = msgq s /\
  (forall i a sid pkt, m = MSub i a sid pkt -> alookup i (sv (drop_msg s m)) <> Some true).
Proof.
  destruct m as [i p|i ph a p|i a sid p]; cbn [drop_msg].
  - pose proof (sview_cancel s i 1) as Hv. split; [apply SLe_view; exact Hv|]. unfold sview in Hv. injection Hv as _ V2 V3 _. repeat split; auto. intros; discriminate.
  - pose proof (sview_cancel s i ph) as Hv. split; [apply SLe_view; exact Hv|]. unfold sview in Hv. injection Hv as _ V2 V3 _. repeat split; auto. intros; discriminate.
  - pose proof (sview_cancel s i 1) as Hv. destruct (close_rest (cancel s i 1) i) as (R1 & R2 & R3).
    split; [eapply SLe_trans; [apply SLe_view; exact Hv|apply SLe_close]|]. unfold sview in Hv. injection Hv as _ V2 V3 _.
    split; [congruence|]. split; [congruence|]. intros i0 a0 sid0 pkt0 He. inversion He; subst. apply close_dead.
Qed.
Lemma fold_drop_msg (l : list cmsg) : forall s,
  let s' := fold_left drop_msg l s in
  SLe s s' /\ subs (c s') = subs (c s) /\
  (forall i a sid pkt, In (MSub i a sid pkt) l -> alookup i (sv s') <> Some true).
Proof.
  induction l as [|m l IH]; intros s; cbn [fold_left].
  - split; [apply SLe_view; reflexivity|]. split; [reflexivity|]. intros i a sid pkt [].
  - destruct (IH (drop_msg s m)) as (H1 & H2 & H4). destruct (drop_msg_le s m) as (D1 & D2 & D3 & D4).
    split; [eapply SLe_trans; eassumption|]. split; [congruence|].
    intros i a sid pkt [He|Hin]; [|eapply H4; exact Hin]. intros Hj.
    destruct H1 as (_ & Hk & _). destruct (Hk i Hj) as [Hj0 _]. exact (D4 i a sid pkt He Hj0).
Qed.

(* once the Context is dropped no sender is alive *)
Lemma drop_ctx_all_dead s : SI s -> forall j, alookup j (sv (drop_ctx s)) <> Some true.
Proof.
  intros HI j Hj. pose proof (SI_reset_session s HI) as [Ho1 Hn1].
  unfold drop_ctx in Hj. cbv zeta in Hj.
  set (s1 := reset_session s) in *. set (s2 := fold_left drop_msg (msgq s1) s1) in *.
  change (sv (mksys _ _ _ _ _ _ _ _ _ _ _ _ _ _ _)) with (sv s2) in Hj.
  destruct (fold_drop_msg (msgq s1) s1) as (H1 & H2 & H4). fold s2 in H1, H2, H4.
  destruct H1 as (_ & Hk & _). destruct (Hk j Hj) as [Hj1 _]. destruct (Ho1 j Hj1) as [_ Hh].
  destruct Hh as [[sid Hs]|(a & sid & pkt & Hin)].
  - unfold s1, reset_session in Hs. cbv zeta in Hs. cbn [c set_c subs] in Hs. destruct Hs.
  - exact (H4 j a sid pkt Hin Hj).
Qed.
Lemma SI_drop_ctx s : SI s -> SI (drop_ctx s).
Proof.
  intros HI. split; [intros j Hj; exfalso; exact (drop_ctx_all_dead s HI j Hj)|].
  pose proof (SI_reset_session s HI) as [_ Hn1]. unfold drop_ctx. cbv zeta.
  set (s1 := reset_session s) in *. destruct (fold_drop_msg (msgq s1) s1) as ((_ & _ & Hn) & _).
  change (sv (mksys _ _ _ _ _ _ _ _ _ _ _ _ _ _ _)) with (sv (fold_left drop_msg (msgq s1) s1)). apply Hn. exact Hn1.
Qed.

(* ---- the handle side ------------------------------------------------------------------------------------------------------ *)
Lemma SLe_send s m s' : send s m = Some s' -> SLe s s' /\ ctx_alive s = true /\ msgq s' = msgq s ++ [m] /\ sv s' = sv s /\ subs (c s') = subs (c s).
Proof.
  unfold send. destruct (ctx_alive s) eqn:Ea; [|discriminate]. intros H. inversion H. subst s'.
  split; [|repeat split; reflexivity]. split; [reflexivity|]. split; [|auto].
  intros j Hj. split; [exact Hj|]. unfold held. cbn [c msgq set_msgq].
  intros [Hs|(a & sid & pkt & Hin)]; [left; exact Hs|right; exists a, sid, pkt; apply in_or_app; left; exact Hin].
Qed.
Lemma SI_put_op s i o : SI s -> SI (put_op s i o).
Proof. apply SI_view. reflexivity. Qed.

Lemma SI_first_poll s i o : SI s -> SI (fst (first_poll s i o)).
Proof.
  intros HI. unfold first_poll. cbv zeta.
  assert (Henq : forall s0 pid m, SI s0 ->
     SI (fst (match send s0 m with Some s1 => pending s1 i o Wait1 pid | None => finish s0 i o RErrExited end))).
  { intros s0 pid m H0. destruct (send s0 m) as [s1|] eqn:Es; cbn [fst pending finish]; apply SI_put_op; [|exact H0].
    destruct (SLe_send _ _ _ Es) as (Hle & _). eapply SI_le; eassumption. }
  assert (Hctr : forall p q, SI (set_ctrs s p q)) by (intros; eapply SI_view; [|exact HI]; reflexivity).
  destruct (o_kind o) as [po|so|uo| |d].
  - destruct (po_qos po =? 0).
    + destruct (enc_publish po 0); [apply Henq; exact HI|apply SI_put_op; exact HI|apply SI_put_op; exact HI].
    + destruct (alloc_pid (pid_ctr s)) as [pid ctr].
      destruct (enc_publish po pid); [apply Henq; apply Hctr|apply SI_put_op; apply Hctr|apply SI_put_op; apply Hctr].
  - destruct (alloc_pid (pid_ctr s)) as [pid ctr]. destruct (alloc_subid (sub_ctr s)) as [sid sctr].
    destruct (enc_subscribe so pid sid) as [pkt| |]; [|apply SI_put_op; apply Hctr|apply SI_put_op; apply Hctr].
    set (s1 := set_ctrs s ctr sctr). assert (HI1 : SI s1) by apply Hctr. destruct HI1 as [Ho1 Hn1].
    set (s2 := set_streams s1 (aset i (mkst [] true true false) (streams s1))).
    assert (Hsv2 : sv s2 = aset i true (sv s1)) by (unfold sv, s2; cbn [streams set_streams]; rewrite amap_aset; reflexivity).
    destruct (send s2 (MSub i (aid 9 pid) sid pkt)) as [s3|] eqn:Es; cbn [fst pending finish]; apply SI_put_op.
    + destruct (SLe_send _ _ _ Es) as (_ & Ha & Hq & Hsv & Hsub). split.
      * intros j Hj. rewrite Hsv, Hsv2, alookup_aset in Hj.
        assert (Ha3 : ctx_alive s3 = true) by (unfold send in Es; rewrite Ha in Es; inversion Es; exact Ha).
        split; [exact Ha3|]. unfold held. rewrite Hq, Hsub. destruct (i =? j) eqn:Ej.
        -- apply N.eqb_eq in Ej. subst j. right. exists (aid 9 pid), sid, pkt. apply in_or_app. right. left. reflexivity.
        -- destruct (Ho1 j Hj) as [_ Hh]. change (subs (c s2)) with (subs (c s1)). change (msgq s2) with (msgq s1).
           destruct Hh as [Hs|(a' & sid' & pkt' & Hin)]; [left; exact Hs|right; exists a', sid', pkt'; apply in_or_app; left; exact Hin].
      * rewrite Hsv, Hsv2. apply aset_keys. exact Hn1.
    + (* the Context is gone: the channel is dropped again *)
      assert (Hsv3 : sv (set_streams s2 (aremove i (streams s2))) = aremove i (aset i true (sv s1))).
      { unfold sv at 1. cbn [streams set_streams]. rewrite amap_aremove. fold (sv s2). rewrite Hsv2. reflexivity. }
      destruct (aset_keys i true (sv s1) Hn1) as [Hn2 _]. destruct (aremove_keys i (aset i true (sv s1)) Hn2) as (Hn3 & Hl3 & _).
      split; [|rewrite Hsv3; exact Hn3].
      intros j Hj. rewrite Hsv3 in Hj. destruct (N.eq_dec j i) as [->|Hne]; [rewrite Hl3 in Hj; discriminate|].
      rewrite alookup_aremove_other, alookup_aset_other in Hj by exact Hne. exact (Ho1 j Hj).
  - destruct (alloc_pid (pid_ctr s)) as [pid ctr].
    destruct (enc_unsubscribe uo pid); [apply Henq; apply Hctr|apply SI_put_op; apply Hctr|apply SI_put_op; apply Hctr].
  - apply Henq. exact HI.
  - destruct (enc_disconnect d); [apply Henq; exact HI|apply SI_put_op; exact HI|apply SI_put_op; exact HI].
Qed.

Lemma SI_drop_recv s j : SI s -> SI (drop_recv s j).
Proof. apply SI_view. apply sview_drop_recv. Qed.
Lemma SI_poll_wait1 s i o : SI s -> SI (fst (poll_wait1 s i o)).
Proof.
  intros HI. unfold poll_wait1. destruct (o_ch1 o) as [|v|]; [exact HI| |].
  - destruct (o_kind o) as [po|so|uo| |d]; destruct v as [|p| |]; cbn [fst finish]; try (apply SI_put_op; try apply SI_drop_recv; exact HI);
      try (destruct (rk p); apply SI_put_op; exact HI).
    destruct (po_qos po =? 1); destruct (rk p); cbn [fst finish]; try (apply SI_put_op; exact HI);
      try (destruct (128 <=? r_reason p); apply SI_put_op; exact HI).
    destruct (128 <=? r_reason p); [apply SI_put_op; exact HI|].
    match goal with |- context [send ?s0 ?m] => destruct (send s0 m) as [s1|] eqn:Es end; cbn [fst pending finish]; apply SI_put_op; [|exact HI].
    destruct (SLe_send _ _ _ Es) as (Hle & _). eapply SI_le; eassumption.
  - destruct (o_kind o); cbn [fst finish]; apply SI_put_op; try apply SI_drop_recv; exact HI.
Qed.
Lemma SI_poll_wait2 s i o : SI s -> SI (fst (poll_wait2 s i o)).
Proof.
  intros HI. unfold poll_wait2. destruct (o_ch2 o) as [|v|]; [exact HI| |apply SI_put_op; exact HI].
  destruct v as [|p| |]; try (apply SI_put_op; exact HI). destruct (rk p); apply SI_put_op; exact HI.
Qed.
Lemma SI_poll_op s i : SI s -> SI (fst (poll_op s i)).
Proof.
  intros HI. unfold poll_op. destruct (alookup i (ops s)) as [o|]; [|exact HI].
  destruct (o_phase o); [apply SI_first_poll|apply SI_poll_wait1|apply SI_poll_wait2|]; exact HI.
Qed.
Lemma SI_drop_op s i : SI s -> SI (drop_op s i).
Proof.
  intros HI. unfold drop_op. destruct (alookup i (ops s)) as [o|]; [|exact HI].
  destruct (o_kind o); try (eapply SI_view; [|exact HI]; reflexivity).
  destruct (match alookup i (streams s) with Some st => negb (st_taken st) | None => false end);
    [|eapply SI_view; [|exact HI]; reflexivity].
  eapply SI_view; [|apply (SI_drop_recv s i HI)]. reflexivity.
Qed.
(* removing a stream entry altogether *)
Lemma SI_remove_stream s j : SI s -> SI (set_streams s (aremove j (streams s))).
Proof.
  intros [Ho Hn]. assert (Hsv : sv (set_streams s (aremove j (streams s))) = aremove j (sv s)) by (unfold sv; cbn [streams set_streams]; apply amap_aremove).
  destruct (aremove_keys j (sv s) Hn) as (Hn1 & Hl1 & _). split; [|rewrite Hsv; exact Hn1].
  intros j' Hj'. rewrite Hsv in Hj'. destruct (N.eq_dec j' j) as [->|Hne]; [rewrite Hl1 in Hj'; discriminate|].
  rewrite alookup_aremove_other in Hj' by exact Hne. exact (Ho j' Hj').
Qed.
Lemma SI_poll_stream s j : SI s -> SI (fst (poll_stream s j)).
Proof.
  intros HI. unfold poll_stream. destruct (alookup j (streams s)) as [st|] eqn:E; [|exact HI].
  destruct (negb (st_taken st)); [exact HI|]. destruct (st_buf st) as [|p r].
  - destruct (st_sender st); cbn [fst]; [exact HI|apply SI_remove_stream; exact HI].
  - cbn [fst]. eapply SI_view; [|exact HI]. unfold sview, sv. cbn [streams set_streams c msgq ctx_alive]. rewrite amap_aset. cbn [st_sender].
    rewrite aset_same; [reflexivity|]. rewrite alookup_amap, E. reflexivity.
Qed.

(* ---- every script event --------------------------------------------------------------------------------------------------- *)
Lemma SI_start_conn s pkt sei : SI s -> SI (start_conn s pkt sei).
Proof.
  intros HI. unfold start_conn. cbv zeta. destruct pkt as [b| |]; try (eapply SI_view; [|exact HI]; reflexivity).
  set (s1 := match sei with Some v => set_c s (with_sei_ts (c s) v (disc_ts (c s))) | None => s end).
  assert (HI1 : SI s1) by (subst s1; destruct sei; [eapply SI_view; [|exact HI]; reflexivity|exact HI]).
  assert (HI2 : SI (fst (write s1 b))) by (eapply SI_view; [apply sview_write|exact HI1]).
  destruct (snd (write s1 b)).
  - apply SI_settle. eapply SI_view; [|exact HI2]. reflexivity.
  - eapply SI_view; [|exact HI2]. reflexivity.
Qed.
Lemma sview_retransmit l : forall s, sview (fst (retransmit s l)) = sview s.
Proof.
  induction l as [|[a pkt] l IH]; intros s; cbn [retransmit]; [reflexivity|].
  destruct (snd (write s pkt)); [rewrite IH|cbn [fst]]; apply sview_write.
Qed.
Lemma SI_start_run s : SI s -> SI (start_run s).
Proof.
  intros HI. unfold start_run. cbv zeta.
  assert (HI0 : SI (set_cph s CIdle)) by (eapply SI_view; [|exact HI]; reflexivity).
  destruct (disc_ts (c (set_cph s CIdle))) as [t|].
  - set (s1 := if session_expired (c (set_cph s CIdle)) t then reset_session (set_cph s CIdle) else set_cph s CIdle).
    assert (HI1 : SI s1) by (subst s1; destruct (session_expired _ _); [apply SI_reset_session|]; exact HI0).
    set (s2 := set_c s1 (with_sei_ts (c s1) (sei (c s1)) None)).
    assert (HI2 : SI s2) by (eapply SI_view; [|exact HI1]; reflexivity).
    pose proof (sview_retransmit (retx (c s2)) s2) as Hr.
    destruct (retransmit s2 (retx (c s2))) as [s3 ok]. cbn [fst] in Hr.
    assert (HI3 : SI s3) by (eapply SI_view; [exact Hr|exact HI2]).
    destruct ok; [apply SI_settle; eapply SI_view; [|exact HI3]; reflexivity|apply SI_exit; exact HI3].
  - apply SI_settle. eapply SI_view; [|exact HI0]. reflexivity.
Qed.
Lemma SI_set_io s r f : SI s -> SI (set_io s r f).
Proof. apply SI_view. reflexivity. Qed.

Lemma SI_spin_one s i kind ack : SI s -> SI (fst (spin_one s i kind ack)).
Proof.
  intros HI. unfold spin_one. destruct (negb (memN 0 (handles s))); [exact HI|]. cbv zeta.
  set (s1 := put_op (set_wire s (wbudget s) []) i (mkop (spin_opts kind) NotStarted CEmpty CEmpty 0)).
  assert (HI1 : SI s1) by (eapply SI_view; [|exact HI]; reflexivity).
  pose proof (SI_poll_op s1 i HI1) as Hp. destruct (poll_op s1 i) as [s2 o1]. cbn [fst] in Hp.
  assert (HI2 : SI (settle s2)) by (apply SI_settle; exact Hp).
  set (pid := match kind, wire_ev (settle s2) with
             | 1, _ :: _ :: _ :: _ :: _ :: a :: b :: _ | 2, _ :: _ :: _ :: _ :: _ :: a :: b :: _ => Some (a * 256 + b)
             | 3, _ :: _ :: a :: b :: _ | 4, _ :: _ :: a :: b :: _ => Some (a * 256 + b)
             | _, _ => None
             end).
  destruct ack; [|destruct pid; exact HI2]. destruct pid as [p|]; [|exact HI2]. cbn [fst].
  eapply SI_view; [reflexivity|].
  assert (Hfold : forall l s0, SI s0 ->
     SI (fold_left (fun s pk =>
               let s := settle (set_io s (mkrd (segs (rd s) ++ [pk]) (r_eof (rd s)) (r_err (rd s))) (fr s)) in
               settle (fst (poll_op s i))) l s0)).
  { induction l as [|pk l IH]; intros s0 H0; cbn [fold_left]; [exact H0|]. apply IH. cbv zeta.
    apply SI_settle. apply SI_poll_op. apply SI_settle. apply SI_set_io. exact H0. }
  apply Hfold. exact HI2.
Qed.
Lemma SI_spin fuel : forall s i kind ack, SI s -> SI (fst (spin fuel s i kind ack)).
Proof.
  induction fuel as [|fuel IH]; intros s i kind ack HI; cbn [spin]; [exact HI|].
  pose proof (SI_spin_one s i kind ack HI) as H1. destruct (spin_one s i kind ack) as [s1 o1]. cbn [fst] in H1.
  pose proof (IH s1 (i + 1) kind ack H1) as H2. destruct (spin fuel s1 (i + 1) kind ack) as [s2 o2]. exact H2.
Qed.

Theorem SI_step s e : SI s -> SI (fst (step s e)).
Proof.
  intros HI. unfold step. cbv zeta.
  assert (Hg : SI (begin_ev s)) by (eapply SI_view; [|exact HI]; reflexivity).
  set (s0 := begin_ev s) in *.
  destruct e; cbn [fst].
  - destruct (negb (ctx_alive s0)); cbn [fst]; [exact Hg|apply SI_start_conn; exact Hg].
  - destruct (negb (ctx_alive s0)); cbn [fst]; [exact Hg|apply SI_start_conn; exact Hg].
  - destruct (negb (ctx_alive s0)); cbn [fst]; [exact Hg|apply SI_start_run; exact Hg].
  - destruct b; cbn [fst]; apply SI_settle; [exact Hg|apply SI_set_io; exact Hg].
  - apply SI_settle. apply SI_set_io. exact Hg.
  - apply SI_settle. apply SI_set_io. exact Hg.
  - eapply SI_view; [|exact Hg]. reflexivity.
  - exact Hg.
  - destruct (memN h (handles s0)); cbn [fst]; [apply SI_put_op; exact Hg|exact Hg].
  - pose proof (SI_poll_op s0 i Hg) as Hp. destruct (poll_op s0 i) as [s1 o]. cbn [fst] in *. apply SI_settle. exact Hp.
  - apply SI_settle. apply SI_drop_op. exact Hg.
  - destruct (alookup i (streams s0)) as [st|] eqn:E; [|exact Hg].
    destruct (op_phase_of s0 i) as [[| | |]|]; try exact Hg.
    destruct (st_recv st && negb (st_taken st)); cbn [fst]; [|exact Hg].
    eapply SI_view; [|exact Hg]. unfold sview, sv. cbn [streams set_streams c msgq ctx_alive]. rewrite amap_aset. cbn [st_sender].
    rewrite aset_same; [reflexivity|]. rewrite alookup_amap, E. reflexivity.
  - pose proof (SI_poll_stream s0 j Hg) as Hp. destruct (poll_stream s0 j) as [s1 o]. cbn [fst] in *. apply SI_settle. exact Hp.
  - assert (Hd : SI (set_streams (drop_recv s0 j) (aremove j (streams (drop_recv s0 j))))).
    { apply SI_remove_stream. apply SI_drop_recv. exact Hg. }
    destruct (op_phase_of s0 j) as [[| | |]|]; cbn [fst]; apply SI_settle; assumption.
  - destruct (memN h (handles s0) && negb (memN h2 (handles s0))); cbn [fst]; [|exact Hg]. eapply SI_view; [|exact Hg]. reflexivity.
  - apply SI_settle. eapply SI_view; [|exact Hg]. reflexivity.
  - apply SI_drop_ctx. exact Hg.
  - eapply SI_view; [|exact Hg]. reflexivity.
  - apply SI_settle. eapply SI_view; [|exact Hg]. reflexivity.
  - destruct (ctx_alive s0); cbn [fst]; [|exact Hg]. eapply SI_view; [|exact Hg]. reflexivity.
  - eapply SI_view; [|exact Hg]. reflexivity.
  - pose proof (SI_spin (N.to_nat n) s0 base kind ack Hg) as H1.
    destruct (spin (N.to_nat n) s0 base kind ack) as [s1 o]. cbn [fst] in *. eapply SI_view; [|exact H1]. reflexivity.
Qed.

Lemma SI_init : SI sys_init.
Proof. split; [intros j Hj; discriminate|constructor]. Qed.
Theorem SI_reachable evs : forall s, SI s -> SI (final_state s evs).
Proof. induction evs as [|e evs IH]; intros s HI; cbn [final_state]; [exact HI|]. apply IH. apply SI_step. exact HI. Qed.

(* ---- C14 for streams ----------------------------------------------------------------------------------------------------- *)
(* in every reachable state: a stream whose sender is alive has it held by the live Context *)
Theorem stream_ownership evs j st : let s := final_state sys_init evs in
  alookup j (streams s) = Some st -> st_sender st = true -> ctx_alive s = true /\ held s j.
Proof.
  cbv zeta. intros Hl Hs. destruct (SI_reachable evs sys_init SI_init) as [Ho _]. apply Ho.
  unfold sv. rewrite alookup_amap, Hl. cbn. rewrite Hs. reflexivity.
Qed.
(* so once the Context is gone, no poll of any stream returns Pending: it yields a buffered message or ends *)
Theorem stream_no_hang evs j : let s := final_state sys_init evs in
  ctx_alive s = false -> snd (poll_stream s j) <> [ONone j].
Proof.
  cbv zeta. intros Ha. unfold poll_stream. destruct (alookup j (streams (final_state sys_init evs))) as [st|] eqn:El; [|cbn; discriminate].
  destruct (negb (st_taken st)); [cbn; discriminate|]. destruct (st_buf st); [|cbn; discriminate].
  destruct (st_sender st) eqn:Es; [|cbn; discriminate].
  destruct (stream_ownership evs j st El Es) as [Ha' _]. congruence.
Qed.
(* the moment the Context is dropped, every sender is gone *)
Theorem drop_ctx_closes_streams evs j st : let s := drop_ctx (final_state sys_init evs) in
  alookup j (streams s) = Some st -> st_sender st = false.
Proof.
  cbv zeta. intros Hl. pose proof (drop_ctx_all_dead _ (SI_reachable evs sys_init SI_init) j) as H.
  unfold sv in H. rewrite alookup_amap, Hl in H. cbn in H. destruct (st_sender st); [exfalso; apply H; reflexivity|reflexivity].
Qed.
