(* C14 - no operation or stream hangs once the Context is gone.
   Partial: that dropping a Context drops the senders it stores (message queue, awaiting_ack,
   subscriptions) and that a dropped sender resolves its receiver is futures / Drop behaviour,
   assumed by the model (drop_ctx, cancel, close_stream_sender) and exercised by the harness. *)
From Poster Require Import Model.Sim Proofs.ClientP Proofs.SimInvP Proofs.OwnP Proofs.StreamOwnP.

(* an operation waiting on a oneshot whose sender was dropped completes ContextExited at its
   next poll *)
Theorem C14_pending_phase1 : forall (s : sys) (i : N) (o : op),
  alookup i (ops s) = Some o -> o_phase o = Wait1 -> o_ch1 o = CGone ->
  snd (poll_op s i) = [ODone i RErrExited].
Proof. exact poll_after_cancel1. Qed.
Print Assumptions C14_pending_phase1.
Theorem C14_pending_phase2 : forall (s : sys) (i : N) (o : op),
  alookup i (ops s) = Some o -> o_phase o = Wait2 -> o_ch2 o = CGone ->
  snd (poll_op s i) = [ODone i RErrExited].
Proof. exact poll_after_cancel2. Qed.
Print Assumptions C14_pending_phase2.

(* an operation first polled after the Context is gone fails in that very poll *)
Theorem C14_later : forall (s : sys) (i : N) (o : op), ctx_alive s = false ->
  exists r, snd (first_poll s i o) = [ODone i r] /\ (r = RErrExited \/ r = RErrCodec \/ r = RPanic).
Proof. exact first_poll_after_drop. Qed.
Print Assumptions C14_later.

(* a stream whose sender is gone yields what it had buffered, then ends *)
Theorem C14_streams : forall (s : sys) (j : N) (st : strm),
  alookup j (streams s) = Some st -> st_taken st = true -> st_sender st = false ->
  snd (poll_stream s j) = match st_buf st with p :: _ => [OItem j p] | [] => [OEnd j] end.
Proof. exact stream_after_drop. Qed.
Print Assumptions C14_streams.


(* ---- every history ------------------------------------------------------------------------------------------
   `final_state sys_init evs` ranges over every state reachable by script events: operations of every
   kind started, polled, dropped in any order from any handle clone, any bytes delivered, transport faults,
   hold/release batching, reconnects, the Context dropped at any point (Model/Sim.v step).

   Ownership invariant: whenever an operation future waits on an empty oneshot, the Context is alive and
   holds that oneshot's sender - in the handle message queue or in awaiting_ack. *)
Theorem C14_ownership : forall evs : list event, Own (final_state sys_init evs).
Proof. exact ownership_reachable. Qed.
Print Assumptions C14_ownership.

(* drop(Context) drops every sender it holds: afterwards no operation waits on an empty oneshot *)
Theorem C14_drop_resolves : forall s : sys, Own s -> forall i ph, ~ unresolved (drop_ctx s) i ph.
Proof. exact drop_ctx_resolves. Qed.
Print Assumptions C14_drop_resolves.

(* hence: in every history, once the Context is gone, no poll of any operation future - pending
   before the drop or started after it - ever returns Pending again *)
Theorem C14_no_hang : forall (evs : list event) (i : N), let s := final_state sys_init evs in
  ctx_alive s = false -> snd (poll_op s i) <> [OPend i].
Proof. exact no_hang_after_drop. Qed.
Print Assumptions C14_no_hang.

Example C14_nonvacuous :
  let evs := [EConnect (Build_connect_opts [99] 0 None None None None None None None None [] 0 false false
                          None None None None None None [] None None None None);
              EDeliver [32; 3; 0; 0; 0]; ERun;
              EStart 0 0 (OPub (Build_publish_opts 2 false (Some [97]) None None None None None None None []));
              EPoll 0; EStart 1 0 OPing; EHold; EPoll 1; EDropCtx] in
  let s := final_state sys_init evs in
  ctx_alive s = false /\ snd (poll_op s 0) = [ODone 0 RErrExited] /\ snd (poll_op s 1) = [ODone 1 RErrExited].
Proof. vm_compute. auto. Qed.

(* ---- streams, every history ------------------------------------------------------------------------------------------
   The same for subscription streams (Proofs/StreamOwnP.v). held s j: the sender of stream j is registered under a
   subscription identifier in the Context, or travels in a subscribe request still in the Context's queue. *)
Check (eq_refl : held = fun s j =>
  (exists sid, In (sid, j) (subs (c s))) \/ (exists a sid pkt, In (MSub j a sid pkt) (msgq s))).

(* in every reachable state a stream whose sender is alive has that sender held by the live Context *)
Theorem C14_stream_ownership : forall (evs : list event) (j : N) (st : strm), let s := final_state sys_init evs in
  alookup j (streams s) = Some st -> st_sender st = true -> ctx_alive s = true /\ held s j.
Proof. exact stream_ownership. Qed.
Print Assumptions C14_stream_ownership.

(* drop(Context) drops every stream sender: whatever the history before it *)
Theorem C14_drop_closes_streams : forall (evs : list event) (j : N) (st : strm),
  let s := drop_ctx (final_state sys_init evs) in
  alookup j (streams s) = Some st -> st_sender st = false.
Proof. exact drop_ctx_closes_streams. Qed.
Print Assumptions C14_drop_closes_streams.

(* hence: in every history, once the Context is gone, no poll of any stream returns Pending - with C14_streams it
   yields what is buffered, then ends *)
Theorem C14_stream_no_hang : forall (evs : list event) (j : N), let s := final_state sys_init evs in
  ctx_alive s = false -> snd (poll_stream s j) <> [ONone j].
Proof. exact stream_no_hang. Qed.
Print Assumptions C14_stream_no_hang.

(* a subscription stream with one message buffered when the Context is dropped: the message, then the end *)
Example C14_stream_nonvacuous :
  let evs := [EConnect (Build_connect_opts [99] 0 None None None None None None None None [] 0 false false
                          None None None None None None [] None None None None);
              EDeliver [32; 3; 0; 0; 0]; ERun;
              EStart 0 0 (OSub (Build_subscribe_opts [Build_sub_filter [97] 0 false false 0] []));
              EPoll 0; EDeliver [144; 4; 0; 1; 0; 0]; EPoll 0; EToStream 0;
              EDeliver [48; 8; 0; 1; 97; 2; 11; 1; 120; 121]; EDropCtx] in
  let s := final_state sys_init evs in
  ctx_alive s = false /\
  (exists p, snd (poll_stream s 0) = [OItem 0 p]) /\
  snd (poll_stream (fst (poll_stream s 0)) 0) = [OEnd 0].
Proof. vm_compute. split; [reflexivity|]. split; [eexists; reflexivity|reflexivity]. Qed.
