(* C05 - each operation completes exactly once, with the acknowledgement addressed to it. *)
From Poster Require Import Model.Sim Proofs.ClientP Proofs.SimInvP Proofs.OwnP Proofs.ByteRangeP Proofs.TypedP Proofs.OnceP.

(* the key under which an operation waits - (expected acknowledgement type << 24) | (id << 8) -
   identifies type and identifier uniquely *)
Theorem C05_aid_injective : forall t1 p1 t2 p2 : N,
  p1 < 65536 -> p2 < 65536 -> aid t1 p1 = aid t2 p2 -> t1 = t2 /\ p1 = p2.
Proof. exact aid_inj. Qed.
Print Assumptions C05_aid_injective.

(* an acknowledgement nobody waits for is absorbed without any effect *)
Theorem C05_stray_ack : forall (s : sys) (a : N) (p : rxpkt),
  alookup a (awaiting (c s)) = None -> ack_waiter s a p = s.
Proof. exact ack_waiter_none. Qed.
Print Assumptions C05_stray_ack.

(* an acknowledgement completes the operation registered under its key with that very packet,
   and the registration is consumed (exactly once) *)
Theorem C05_own_ack : forall (s : sys) (a : N) (p : rxpkt) (i ph : N),
  alookup a (awaiting (c s)) = Some (i, ph) ->
  ops (ack_waiter s a p) = ops (complete s i ph (CPkt p)) /\
  awaiting (c (ack_waiter s a p)) = aremove a (awaiting (c s)).
Proof. exact ack_waiter_some. Qed.
Print Assumptions C05_own_ack.

(* completing one operation touches no other operation *)
Theorem C05_others_untouched : forall (s : sys) (i ph : N) (v : cval) (j : N),
  j <> i -> alookup j (ops (complete s i ph v)) = alookup j (ops s).
Proof. exact complete_other. Qed.
Print Assumptions C05_others_untouched.

(* operations whose acknowledgement has not arrived stay pending *)
Theorem C05_stays_pending : forall (s : sys) (i : N) (o : op),
  alookup i (ops s) = Some o ->
  (o_phase o = Wait1 /\ o_ch1 o = CEmpty) \/ (o_phase o = Wait2 /\ o_ch2 o = CEmpty) ->
  poll_op s i = (s, [OPend i]).
Proof. exact spurious_op_poll. Qed.
Print Assumptions C05_stays_pending.

(* a filled oneshot is never overwritten: the first completion stands *)
Theorem C05_at_most_once : forall (ch : chan) (v w : cval), ch = CFull w -> fill_chan ch v = CFull w.
Proof. exact fill_chan_full. Qed.
Print Assumptions C05_at_most_once.

(* ---- every history ---------------------------------------------------------------------------------------------
   `wf_run sys_init evs`: a script of events (Model/Sim.v) in which operations are started under fresh indices,
   the transport delivers bytes (< 256), and the harness's batch event is not used; otherwise arbitrary:
   any operations from any handle clones, any packets (expected, unexpected, stray, wrong type for a pending
   identifier, malformed) in any order and chunking, drops, faults, reconnects.

   In every state such a script reaches, whatever sits in an operation's oneshot is the acknowledgement KIND that
   operation and phase wait for - PINGRESP for a ping, SUBACK for a subscribe, UNSUBACK for an unsubscribe, PUBACK
   for a QoS 1 publish, PUBREC then PUBCOMP for a QoS 2 publish - never another operation's kind: the registration
   key (type << 24 | id << 8) separates the kinds, and identifiers decoded from bytes are u16. *)
Theorem C05_completion_typed : forall (evs : list event) (i : N) (o : op) (p : rxpkt), wf_run sys_init evs ->
  let s := final_state sys_init evs in
  alookup i (ops s) = Some o ->
  (o_ch1 o = CFull (CPkt p) -> expect (o_kind o) 1 = Some (rk p)) /\
  (o_ch2 o = CFull (CPkt p) -> expect (o_kind o) 2 = Some (rk p)).
Proof. exact completion_typed. Qed.
Print Assumptions C05_completion_typed.

(* ... so polling a started operation future never reaches the unreachable!() arms of handle.rs *)
Theorem C05_no_unreachable : forall (evs : list event) (i : N) (o : op), wf_run sys_init evs ->
  let s := final_state sys_init evs in
  alookup i (ops s) = Some o -> o_phase o <> NotStarted -> ~ In (ODone i RPanic) (snd (poll_op s i)).
Proof. exact no_unreachable. Qed.
Print Assumptions C05_no_unreachable.

Example C05_nonvacuous :
  let evs := [EConnect (Build_connect_opts [99] 0 None None None None None None None None [] 0 false false
                          None None None None None None [] None None None None);
              EDeliver [32; 3; 0; 0; 0]; ERun;
              EStart 0 0 (OPub (Build_publish_opts 2 false (Some [97]) None None None None None None None []));
              EPoll 0; EStart 1 0 (OUnsub (Build_unsubscribe_opts [[97]] [])); EPoll 1;
              EDeliver [176; 4; 0; 1; 0; 0];          (* UNSUBACK carrying the PUBLISH's identifier 1: wrong type, absorbed *)
              EDeliver [80; 2; 0; 1]; EPoll 0; EDeliver [112; 2; 0; 1]] in
  wf_run sys_init evs /\ snd (poll_op (final_state sys_init evs) 0) = [ODone 0 ROk] /\
  snd (poll_op (final_state sys_init evs) 1) = [OPend 1].
Proof.
  cbv zeta. split; [apply wf_runb_ok; vm_compute; reflexivity|vm_compute; auto].
Qed.

(* ---- exactly once, over every history (Proofs/OnceP.v) -------------------------------------------------------------------
   dones i l: how many results (ODone i _) of operation label i the observations l contain. all_obs s evs: every
   observation of running the events evs from s. no_restart i: the event does not start label i anew (and is not a
   batch event). From ANY state satisfying the reachable-state invariant OI, whatever else the events do - repeated,
   stray or mistyped acknowledgements, other operations, faults, reconnects, the Context dropped -: the future of
   operation i reports a result at most once; and never again once it has finished or was dropped (cap = 0). *)
Theorem C05_exactly_once : forall (evs : list event) (s : sys) (i : N), OI s -> Forall (no_restart i) evs ->
  (dones i (all_obs s evs) + cap (final_state s evs) i <= cap s i)%nat.
Proof. exact at_most_once. Qed.
Print Assumptions C05_exactly_once.
Theorem C05_exactly_once_reachable : forall (pre evs : list event) (i : N), Forall (no_restart i) evs ->
  (dones i (all_obs (final_state sys_init pre) evs) <= 1)%nat.
Proof. exact at_most_once_reachable. Qed.
Print Assumptions C05_exactly_once_reachable.
Check (eq_refl : cap = fun s i =>
  match alookup i (ops s) with Some o => match o_phase o with Finished => 0%nat | _ => 1%nat end | None => 0%nat end).
Check (eq_refl : dones = fun i l => length (filter (fun o => match o with ODone j _ => j =? i | _ => false end) l)).
Check (eq_refl : no_restart = fun i e => match e with EStart j _ _ => j <> i | ESpin _ _ _ _ => False | _ => True end).

(* a QoS 1 publish whose PUBACK is delivered three times and which is polled five times: one result *)
Example C05_once_nonvacuous :
  let pre := [EConnect (Build_connect_opts [99] 0 None None None None None None None None [] 0 false false
                          None None None None None None [] None None None None);
              EDeliver [32; 3; 0; 0; 0]; ERun;
              EStart 0 0 (OPub (Build_publish_opts 1 false (Some [116]) None None None None None None None []))] in
  let evs := [EPoll 0; EDeliver [64; 2; 0; 1]; EDeliver [64; 2; 0; 1]; EPoll 0; EPoll 0; EDeliver [64; 2; 0; 1]; EPoll 0; EPoll 0] in
  Forall (no_restart 0) evs /\ dones 0 (all_obs (final_state sys_init pre) evs) = 1%nat.
Proof. split; [repeat constructor|vm_compute; reflexivity]. Qed.
