(* The run loop (Model/Client.v run_turn): why it ends. *)
From Poster Require Import Model.Client Proofs.BytesP Proofs.RxP Proofs.FramingP Proofs.ClientP.
Arguments N.add : simpl never. Arguments N.mul : simpl never. Arguments N.sub : simpl never.
Arguments N.ltb : simpl never. Arguments N.leb : simpl never. Arguments N.eqb : simpl never.

(* the documented causes of run() returning, as seen at the start of the turn that ends it *)
Inductive run_exit_cause (s : sys) : runres -> Prop :=
| CauseServerDisconnect bs f r p :
    fpoll (poll_fuel (rd s)) (fr s) (rd s) = (FItem bs, f, r) -> dec_packet bs = Ok p -> rk p = KDisconnect ->
    run_exit_cause s (if r_reason p =? 0 then RunOk else RunDisconnected p)
| CauseOutOfPlace bs f r p :
    fpoll (poll_fuel (rd s)) (fr s) (rd s) = (FItem bs, f, r) -> dec_packet bs = Ok p ->
    rk p = KConnack \/ rk p = KAuth -> run_exit_cause s RunCodec
| CauseUndecodable bs f r :
    fpoll (poll_fuel (rd s)) (fr s) (rd s) = (FItem bs, f, r) -> dec_packet bs = Err -> run_exit_cause s RunCodec
| CauseTransportEnded f r :
    fpoll (poll_fuel (rd s)) (fr s) (rd s) = (FEnd, f, r) -> run_exit_cause s RunSocketClosed
| CauseUserDisconnect f r i pkt q :
    fpoll (poll_fuel (rd s)) (fr s) (rd s) = (FPending, f, r) -> msgq s = MFire i pkt :: q -> ptype_of pkt = 14 ->
    run_exit_cause s RunOk
| CauseHandlesDropped f r :
    fpoll (poll_fuel (rd s)) (fr s) (rd s) = (FPending, f, r) -> msgq s = [] -> live_senders s = 0 ->
    run_exit_cause s RunHandleClosed
(* not a cause in the code: the model's own failure values (empty frame handed to the decoder,
   fuel exhausted); shown unreachable from well-formed framing states in Proofs/FramingP.v *)
| CauseModelInternal : run_exit_cause s RunPanic.

Lemma set_io_wb s r f : wbudget (set_io s r f) = wbudget s. Proof. reflexivity. Qed.
Lemma set_msgq_wb s q : wbudget (set_msgq s q) = wbudget s. Proof. reflexivity. Qed.

Theorem run_turn_exit s s' : wbudget s = None -> run_turn s = (s', TStop) ->
  tail_ev s' = tail_ev s \/ exists r, tail_ev s' = tail_ev s ++ [ORun r] /\ run_exit_cause s r.
Proof.
  intros Hb. unfold run_turn.
  destruct (fpoll (poll_fuel (rd s)) (fr s) (rd s)) as [[o f] r] eqn:Ef.
  destruct o as [bs| | | |].
  - destruct (dec_packet bs) as [p| |] eqn:Ed.
    + destruct (handle_packet (set_io s r f) p) as [s1 a] eqn:Eh. destruct a as [|res]; [discriminate|].
      intros H. inversion H; subst s'. right. exists res.
      assert (Hs : snd (handle_packet (set_io s r f) p) = Exit res) by (rewrite Eh; reflexivity).
      apply handle_packet_exit in Hs; [|exact Hb].
      assert (Ht : tail_ev s1 = tail_ev s).
      { replace s1 with (fst (handle_packet (set_io s r f) p)) by (rewrite Eh; reflexivity).
        clear. unfold handle_packet. cbv zeta.
        assert (Hw : forall s b, tail_ev (fst (write s b)) = tail_ev s).
        { intros s0 b. unfold write. destruct (wbudget s0); [destruct (_ <=? _)|]; reflexivity. }
        assert (Hc : forall s i ph v, tail_ev (complete s i ph v) = tail_ev s).
        { intros s0 i ph v. unfold complete. destruct (alookup i (ops s0)); reflexivity. }
        assert (Ha : forall s a p, tail_ev (ack_waiter s a p) = tail_ev s).
        { intros s0 a p0. unfold ack_waiter. destruct (alookup a (awaiting (c s0))) as [[i ph]|]; [|reflexivity].
          rewrite Hc. reflexivity. }
        assert (Hcl : forall s j, tail_ev (close_stream_sender s j) = tail_ev s).
        { intros s0 j. unfold close_stream_sender. destruct (alookup j (streams s0)); reflexivity. }
        assert (Hd : forall s sid p, tail_ev (dispatch s sid p) = tail_ev s).
        { intros s0 sid p0. unfold dispatch. destruct (alookup sid (subs (c s0))) as [j|]; [|reflexivity].
          destruct (alookup j (streams s0)) as [st|]; [destruct (st_recv st)|]; rewrite ?Hcl; reflexivity. }
        destruct (rk p); cbn [fst]; rewrite ?Ha, ?Hw; try reflexivity.
        destruct (r_qos p =? 0); cbn [fst]; rewrite ?Hw;
          repeat match goal with
          | |- context [if ?b then _ else _] => destruct b
          | |- context [match pub_subid p with _ => _ end] => destruct (pub_subid p)
          end; rewrite ?Hd; reflexivity. }
      split; [cbn; rewrite Ht; reflexivity|].
      destruct Hs as [[K R]|[K R]]; subst res.
      * eapply CauseServerDisconnect; eassumption.
      * eapply CauseOutOfPlace; eassumption.
    + intros H. inversion H; subst s'. right. exists RunCodec. split; [reflexivity|].
      eapply CauseUndecodable; eassumption.
    + intros H. inversion H; subst s'. right. exists RunPanic. split; [reflexivity|]. apply CauseModelInternal.
  - destruct (msgq (set_io s r f)) as [|m q] eqn:Eq.
    + destruct (live_senders (set_io s r f) =? 0) eqn:El; intros H; inversion H; subst s'.
      * right. exists RunHandleClosed. split; [reflexivity|]. eapply CauseHandlesDropped; try eassumption.
        apply N.eqb_eq in El. exact El.
      * left. reflexivity.
    + destruct (handle_message (set_msgq (set_io s r f) q) m) as [s1 a] eqn:Eh. destruct a as [|res]; [discriminate|].
      intros H. inversion H; subst s'. right. exists res.
      assert (Hs : snd (handle_message (set_msgq (set_io s r f) q) m) = Exit res) by (rewrite Eh; reflexivity).
      apply handle_message_exit in Hs; [|exact Hb].
      destruct Hs as [i [pkt [Em [Et [Er _]]]]]. subst m res.
      assert (Ht : tail_ev s1 = tail_ev s).
      { replace s1 with (fst (handle_message (set_msgq (set_io s r f) q) (MFire i pkt))) by (rewrite Eh; reflexivity).
        unfold handle_message. cbv zeta.
        assert (Hw : forall s b, tail_ev (fst (write s b)) = tail_ev s).
        { intros s0 b. unfold write. destruct (wbudget s0); [destruct (_ <=? _)|]; reflexivity. }
        assert (Hc : forall s i ph v, tail_ev (complete s i ph v) = tail_ev s).
        { intros s0 i0 ph v. unfold complete. destruct (alookup i0 (ops s0)); reflexivity. }
        assert (Hca : forall s i ph, tail_ev (cancel s i ph) = tail_ev s).
        { intros s0 i0 ph. unfold cancel. destruct (alookup i0 (ops s0)); reflexivity. }
        destruct (negb (size_ok _ pkt)); cbn [fst]; [rewrite Hc; reflexivity|].
        destruct (negb (snd (write _ pkt))); cbn [fst]; rewrite ?Hca, ?Hc, ?Hw; reflexivity. }
      split; [cbn; rewrite Ht; reflexivity|].
      eapply CauseUserDisconnect; eassumption.
  - intros H. inversion H; subst s'. right. exists RunSocketClosed. split; [reflexivity|].
    eapply CauseTransportEnded; eassumption.
  - intros H. inversion H; subst s'. right. exists RunPanic. split; [reflexivity|]. apply CauseModelInternal.
  - intros H. inversion H; subst s'. right. exists RunPanic. split; [reflexivity|]. apply CauseModelInternal.
Qed.

(* ---- the whole run loop: it returns only through a documented cause ------------------------------------------ *)
Lemma tail_complete s i ph v : tail_ev (complete s i ph v) = tail_ev s.
Proof. unfold complete. destruct (alookup i (ops s)); reflexivity. Qed.
Lemma tail_cancel s i ph : tail_ev (cancel s i ph) = tail_ev s.
Proof. unfold cancel. destruct (alookup i (ops s)); reflexivity. Qed.
Lemma tail_write s b : tail_ev (fst (write s b)) = tail_ev s.
Proof. unfold write. destruct (wbudget s); [destruct (_ <=? _)|]; reflexivity. Qed.
Lemma tail_close s j : tail_ev (close_stream_sender s j) = tail_ev s.
Proof. unfold close_stream_sender. destruct (alookup j (streams s)); reflexivity. Qed.
Lemma tail_ack_waiter s a p : tail_ev (ack_waiter s a p) = tail_ev s.
Proof. unfold ack_waiter. destruct (alookup a (awaiting (c s))) as [[i ph]|]; [|reflexivity]. rewrite tail_complete. reflexivity. Qed.
Lemma tail_dispatch s sid p : tail_ev (dispatch s sid p) = tail_ev s.
Proof.
  unfold dispatch. destruct (alookup sid (subs (c s))) as [j|]; [|reflexivity].
  destruct (alookup j (streams s)) as [st|]; [destruct (st_recv st)|]; rewrite ?tail_close; reflexivity.
Qed.
Lemma tail_handle_packet s p : tail_ev (fst (handle_packet s p)) = tail_ev s.
Proof.
  unfold handle_packet. cbv zeta. destruct (rk p); cbn [fst]; rewrite ?tail_ack_waiter, ?tail_write; try reflexivity.
  destruct (r_qos p =? 0); cbn [fst]; rewrite ?tail_write;
    repeat match goal with
    | |- context [if ?b then _ else _] => destruct b
    | |- context [match pub_subid p with _ => _ end] => destruct (pub_subid p)
    end; rewrite ?tail_dispatch; reflexivity.
Qed.
Lemma tail_handle_message s m : tail_ev (fst (handle_message s m)) = tail_ev s.
Proof.
  unfold handle_message. cbv zeta. destruct m as [i p|i ph a p|i a sid p].
  - destruct (negb (size_ok (c s) p)); cbn [fst]; [apply tail_complete|].
    destruct (negb (snd (write s p))); cbn [fst]; rewrite ?tail_cancel, ?tail_complete, ?tail_write; reflexivity.
  - destruct (negb (size_ok (c s) p)); cbn [fst]; [apply tail_complete|].
    destruct (ptype_of p =? 3).
    + destruct (quota (c s) =? 0); cbn [fst]; [apply tail_complete|].
      destruct (negb (snd (write _ p))); cbn [fst]; rewrite ?tail_cancel; cbn [tail_ev set_c]; rewrite ?tail_write; reflexivity.
    + destruct (ptype_of p =? 6); destruct (negb (snd (write s p))); cbn [fst]; rewrite ?tail_cancel; cbn [tail_ev set_c];
        rewrite ?tail_write; reflexivity.
  - destruct (negb (size_ok (c s) p)); cbn [fst]; rewrite ?tail_close, ?tail_complete, ?tail_write; reflexivity.
Qed.
Lemma wb_handle_message s m : wbudget s = None -> wbudget (fst (handle_message s m)) = None.
Proof.
  intros Hb. unfold handle_message. cbv zeta.
  destruct m as [i p|i ph a p|i a sid p].
  - destruct (negb (size_ok (c s) p)); cbn [fst]; [rewrite complete_wbudget; exact Hb|].
    rewrite write_nofault_snd, write_nofault_fst by exact Hb. cbn [negb fst]. rewrite complete_wbudget. reflexivity.
  - destruct (negb (size_ok (c s) p)); cbn [fst]; [rewrite complete_wbudget; exact Hb|].
    destruct (ptype_of p =? 3).
    + destruct (quota (c s) =? 0); cbn [fst]; [rewrite complete_wbudget; exact Hb|].
      rewrite write_nofault_snd, write_nofault_fst by exact Hb. reflexivity.
    + destruct (ptype_of p =? 6); rewrite write_nofault_snd, write_nofault_fst by exact Hb; reflexivity.
  - destruct (negb (size_ok (c s) p)); cbn [fst].
    + unfold close_stream_sender. destruct (alookup i (streams _)); cbn [wbudget set_streams];
        rewrite complete_wbudget; exact Hb.
    + rewrite write_nofault_fst by exact Hb. reflexivity.
Qed.

(* a turn that lets the loop go on reports nothing and keeps the transport healthy *)
Lemma run_turn_go s s' : wbudget s = None -> run_turn s = (s', TGo) -> tail_ev s' = tail_ev s /\ wbudget s' = None.
Proof.
  intros Hb. unfold run_turn. destruct (fpoll (poll_fuel (rd s)) (fr s) (rd s)) as [[o f] r].
  destruct o as [bs| | | |]; try discriminate.
  - destruct (dec_packet bs) as [p| |]; try discriminate.
    pose proof (tail_handle_packet (set_io s r f) p) as Ht. pose proof (handle_packet_wire (set_io s r f) p Hb) as Hw.
    destruct (handle_packet (set_io s r f) p) as [s1 a]. cbn [fst] in *. destruct a; [|discriminate].
    intros H. inversion H; subst. split; [exact Ht|]. unfold wb in Hw. inversion Hw. reflexivity.
  - destruct (msgq (set_io s r f)) as [|m q]; [destruct (live_senders _ =? 0); discriminate|].
    pose proof (tail_handle_message (set_msgq (set_io s r f) q) m) as Ht.
    pose proof (wb_handle_message (set_msgq (set_io s r f) q) m Hb) as Hw.
    destruct (handle_message (set_msgq (set_io s r f) q) m) as [s1 a]. cbn [fst] in *. destruct a; [|discriminate].
    intros H. inversion H; subst. auto.
Qed.

(* every way out of the loop: nothing reported (it is still serving: parked on Pending), or exactly one
   run() result whose cause is one of the documented ones, observed in the state the last turn started from *)
Theorem settle_loop_exit fuel : forall s, wbudget s = None -> cph s = CRunning ->
  tail_ev (settle_loop fuel s) = tail_ev s \/
  exists s0 r, wbudget s0 = None /\ run_exit_cause s0 r /\ tail_ev (settle_loop fuel s) = tail_ev s ++ [ORun r].
Proof.
  induction fuel as [|fuel IH]; intros s Hb Hc; cbn [settle_loop]; [left; reflexivity|]. rewrite Hc.
  destruct (run_turn s) as [s1 t] eqn:Et. destruct t.
  - destruct (run_turn_exit s s1 Hb Et) as [H|[r [H1 H2]]]; [left; exact H|]. right. exists s, r. auto.
  - destruct (run_turn_go s s1 Hb Et) as [Ht Hw].
    destruct (cph s1) eqn:Ec1.
    + destruct fuel; cbn [settle_loop]; rewrite ?Ec1; left; exact Ht.
    + (* a running turn never changes the phase to connecting; covered for completeness *)
      destruct fuel as [|fuel']; cbn [settle_loop]; [left; exact Ht|]. rewrite Ec1.
      assert (Hcp : cph s1 = cph s).
      { clear -Et. unfold run_turn in Et. destruct (fpoll (poll_fuel (rd s)) (fr s) (rd s)) as [[o f] r].
        destruct o as [bs| | | |]; try discriminate.
        - destruct (dec_packet bs) as [p| |]; try discriminate.
          assert (Hk : cph (fst (handle_packet (set_io s r f) p)) = cph s).
          { clear. unfold handle_packet. cbv zeta.
            assert (Hw : forall s b, cph (fst (write s b)) = cph s) by (intros s0 b; unfold write; destruct (wbudget s0); [destruct (_ <=? _)|]; reflexivity).
            assert (Hcm : forall s i ph v, cph (complete s i ph v) = cph s) by (intros s0 i ph v; unfold complete; destruct (alookup i (ops s0)); reflexivity).
            assert (Ha : forall s a p, cph (ack_waiter s a p) = cph s) by (intros s0 a p0; unfold ack_waiter; destruct (alookup a (awaiting (c s0))) as [[i ph]|]; [rewrite Hcm|]; reflexivity).
            assert (Hcl : forall s j, cph (close_stream_sender s j) = cph s) by (intros s0 j; unfold close_stream_sender; destruct (alookup j (streams s0)); reflexivity).
            assert (Hd : forall s sid p, cph (dispatch s sid p) = cph s).
            { intros s0 sid p0. unfold dispatch. destruct (alookup sid (subs (c s0))) as [j|]; [|reflexivity].
              destruct (alookup j (streams s0)) as [st|]; [destruct (st_recv st)|]; rewrite ?Hcl; reflexivity. }
            destruct (rk p); cbn [fst]; rewrite ?Ha, ?Hw; try reflexivity.
            destruct (r_qos p =? 0); cbn [fst]; rewrite ?Hw;
              repeat match goal with
              | |- context [if ?b then _ else _] => destruct b
              | |- context [match pub_subid p with _ => _ end] => destruct (pub_subid p)
              end; rewrite ?Hd; reflexivity. }
          destruct (handle_packet (set_io s r f) p) as [s2 a]. cbn [fst] in Hk. destruct a; [|discriminate].
          inversion Et; subst. exact Hk.
        - destruct (msgq (set_io s r f)) as [|m q]; [destruct (live_senders _ =? 0); discriminate|].
          assert (Hk : cph (fst (handle_message (set_msgq (set_io s r f) q) m)) = cph s).
          { clear. unfold handle_message. cbv zeta.
            assert (Hw : forall s b, cph (fst (write s b)) = cph s) by (intros s0 b; unfold write; destruct (wbudget s0); [destruct (_ <=? _)|]; reflexivity).
            assert (Hcm : forall s i ph v, cph (complete s i ph v) = cph s) by (intros s0 i ph v; unfold complete; destruct (alookup i (ops s0)); reflexivity).
            assert (Hca : forall s i ph, cph (cancel s i ph) = cph s) by (intros s0 i ph; unfold cancel; destruct (alookup i (ops s0)); reflexivity).
            assert (Hcl : forall s j, cph (close_stream_sender s j) = cph s) by (intros s0 j; unfold close_stream_sender; destruct (alookup j (streams s0)); reflexivity).
            destruct m as [i p|i ph a p|i a sid p].
            - destruct (negb (size_ok _ p)); cbn [fst]; [rewrite Hcm; reflexivity|].
              destruct (negb (snd (write _ p))); cbn [fst]; rewrite ?Hca, ?Hcm, ?Hw; reflexivity.
            - destruct (negb (size_ok _ p)); cbn [fst]; [rewrite Hcm; reflexivity|].
              destruct (ptype_of p =? 3).
              + destruct (quota _ =? 0); cbn [fst]; [rewrite Hcm; reflexivity|].
                destruct (negb (snd (write _ p))); cbn [fst]; rewrite ?Hca; cbn [cph set_c]; rewrite ?Hw; reflexivity.
              + destruct (ptype_of p =? 6); destruct (negb (snd (write _ p))); cbn [fst]; rewrite ?Hca; cbn [cph set_c]; rewrite ?Hw; reflexivity.
            - destruct (negb (size_ok _ p)); cbn [fst]; rewrite ?Hcl, ?Hcm, ?Hw; reflexivity. }
          destruct (handle_message (set_msgq (set_io s r f) q) m) as [s2 a]. cbn [fst] in Hk. destruct a; [|discriminate].
          inversion Et; subst. exact Hk. }
      rewrite Hcp, Hc in Ec1. discriminate.
    + destruct (IH s1 Hw Ec1) as [H|[s0 [r [H1 [H2 H3]]]]]; [left; rewrite H; exact Ht|].
      right. exists s0, r. rewrite H3, Ht. auto.
Qed.
